"""C20 — copyright notices are built and merged without losing holders or years."""
import re

from core import Property, Stream, enc, dec, enc_list, dec_list
import textcorr
import pystr
from textcorr import impl_search, YEARS

SPLITLINES_BREAKS = "\n\r\x0b\x0c\x1c\x1d\x1e\x85  "


def end_suffix_free(h):
    """no non-empty suffix of h is made of comment terminators (the reader would cut it off)"""
    from reuse import extract
    pat = re.compile(r"(?:%s)\Z" % extract._END_PATTERN[:-1])
    return not any(pat.match(h[k:]) for k in range(len(h)))


#: how a notice begins (documented tags: docs/man/reuse-annotate.rst, REUSE specification): the tag, then white space
NOTICE_START = re.compile(r"(SPDX-(File|Snippet)CopyrightText:|Copyright|©)\s")


def wf_holder(h: str) -> bool:
    """The holders the property quantifies over (independent Python statement; Lean's older WFHolder is narrower, the
    Spec.WFHolderL && Spec.noNoticeInside of C20_make_parse is this predicate except that it admits line breaks other than LF
    and trailing white space other than blank / tab — the stream `theoremfull` checks on every case that this predicate implies
    the Lean one).  A holder that merely *begins like* a tag glued to more letters
    ('Copyrighted Works Ltd.', '©tudio', '(C)ompany', 'SPDX-FileCopyrightTextual') or that carries the word
    where no white space follows ('Acme Copyright') is a holder like any other."""
    if not h or h != h.strip() or any(c in h for c in SPLITLINES_BREAKS):
        return False
    if NOTICE_START.search(h):                     # would itself be (or contain) a notice
        return False
    if re.match(r"\([Cc]\)\s", h):                 # '(C) Holder' would extend the prefix
        return False
    if re.match(r"\d", h[0]):                      # would be read as the year
        return False
    if re.match(r"- ?\d{4},?\s", h):               # '-2020 Holder' after a single year would be read as the end of a range
        return False
    return end_suffix_free(h)


def is_notice(h: str) -> bool:
    return impl_search(h) is not None


GLUED_TAGS = ["Copyright", "©", "(C)", "(c)", "SPDX-FileCopyrightText", "SPDX-FileCopyrightText:", "SPDX-SnippetCopyrightText:", "Copyright (C)", "Copyright (c)"]
GLUED_TAILS = ["ed Works Ltd.", "s Agency e.V. <https://rights.example>", "tudio Ñandú GmbH", "ompany", "ual", "-Free Software Ltd", "_x", "'s Best",
               ".io", "/Left"]
GLUED_HOLDERS = sorted({t + tail for t in GLUED_TAGS for tail in GLUED_TAILS if not (t.endswith(")") and tail[0] in "_")} | {
    "Acme Copyright", "Acme ©", "Acme (C)", "non©ommercial", "Jane Copyrights Dept", "The Copyleft Copyright", "Copyright", "©", "(C)", "Team ©opy"})


def notice_statements():
    """Statements that already are notices: every documented tag — the ten --copyright-prefix texts, their (c) spellings and the
    SPDX-SnippetCopyrightText: forms — then white space, optional years in every form the reader knows, then a holder."""
    from reuse.copyright import _COPYRIGHT_PREFIXES
    tags = list(_COPYRIGHT_PREFIXES.values())
    tags += [t.replace("(C)", "(c)") for t in tags if "(C)" in t]
    tags += [t.replace("SPDX-FileCopyrightText:", "SPDX-SnippetCopyrightText:") for t in tags if t.startswith("SPDX-File")]
    years = [None, "2020", "2019-2021", "2019 - 2021", "2019 -2021", "2019- 2021", "2020,"]
    holders = ["Jane Doe <jane@example.com>", "Example, Inc."]
    out = []
    for i, t in enumerate(tags):
        for j, y in enumerate(years):
            h = holders[(i + j) % 2]
            out.append("%s %s%s" % (t, (y + " ") if y else "", h))
            if (i + j) % 5 == 0:
                out.append("%s\t%s%s" % (t, (y + "  ") if y else "", h))      # other white space between the parts
    return out


class MakeParseStream(textcorr.MkLineStream):
    """make_copyright_line, then the tool's own reader (oracle: prefix, year, holder come back)."""
    name = "makeparse"
    exhaustive = True
    rule = ("every (holder, year form, prefix option) triple over 40 grammar holders (names, organisations with punctuation, e-mail / URL "
            "suffixes, non-ASCII, plus holders outside the well-formedness predicate) x 6 year forms x 10 prefixes: make_copyright_line then "
            "the tool's reader; oracle: well-formed holder => one notice with that prefix, year, holder; a statement that already is a "
            "notice is kept verbatim; non-trivial = distinct line built")
    HOLD = textcorr.HOLDERS + ["Jane", "Jane Doe and contributors", "Doe, Jane", "Jane Doe <jane@example.com> (https://example.com)",
                               "The FOO Project Developers", "Ünïcödé Ltd.", "O'Reilly & Sons", "a.b@c.d", "Jane   Doe", "J",
                               "Jane (maintainer)", "GmbH & Co. KG", "Jane Doe, John Doe", "x/y", "Jane #1", "100% Code Ltd", "C. Opyright",
                               "Copy Right Inc."]

    # holders that merely begin like (or carry) a tag, glued to more characters or followed by nothing: holders like any other
    HOLD = HOLD + GLUED_HOLDERS

    def cases(self, tier, rng):
        from reuse.copyright import _COPYRIGHT_PREFIXES
        for h in self.HOLD:
            for y in YEARS:
                for p in _COPYRIGHT_PREFIXES:
                    yield {"h": h, "y": y, "p": p}
        # statements that already are notices, in every notation (generator's ground truth: tag, white space, [years], holder)
        prefs = list(_COPYRIGHT_PREFIXES)
        for i, st in enumerate(notice_statements()):
            combos = [(y, p) for y in YEARS for p in prefs] if tier == "thorough" else [
                (YEARS[(i + k) % len(YEARS)], prefs[(i * 3 + k * 7) % len(prefs)]) for k in range(4)]
            for y, p in combos:
                yield {"h": st, "y": y, "p": p, "n": True}

    def oracle(self, case, impl_out):
        from reuse.copyright import _COPYRIGHT_PREFIXES
        if impl_out.startswith(("err", "EXC")):
            return "make-crash: " + impl_out
        line = dec(impl_out)
        h, y, p = case["h"], case["y"], case["p"]
        if case.get("n") or NOTICE_START.search(h) or is_notice(h):
            return None if line == h else "not-verbatim: %r already is a notice but became %r" % (h, line)
        if not wf_holder(h):
            return None
        m = impl_search(line)
        want = (_COPYRIGHT_PREFIXES[p], y, h)
        got = None if m is None else (m.groupdict()["prefix"], m.groupdict()["year"], m.groupdict()["statement"])
        if got != want:
            return "make-parse: built %r, reader sees %r instead of %r" % (line, got, want)
        if m.start() != 0 or m.groupdict()["copyright"] != line:
            return "make-parse-span: notice %r is not the whole line %r" % (m.groupdict()["copyright"], line)
        return None


class TheoremStream(Stream):
    """Ties C20_make_parse_partial to the implementation: wherever the driver says the theorem's hypotheses hold,
    the real reader must return exactly (prefix, year, holder) for the real make_copyright_line output."""
    name = "theorem"
    exhaustive = True
    rule = ("for every (holder, year form, prefix) of the makeparse grid the compiled driver evaluates the hypotheses of "
            "C20_make_parse_partial (WFHolder on the generated END pattern, year well-formed, no higher-priority pattern in the line); "
            "where they hold the implementation must read back exactly that prefix, year and holder; non-trivial = hypotheses hold")

    def cases(self, tier, rng):
        from reuse.copyright import _COPYRIGHT_PREFIXES
        for h in MakeParseStream.HOLD:
            for y in YEARS:
                for p in _COPYRIGHT_PREFIXES:
                    yield {"h": h, "y": y, "p": p}

    def impl(self, case):
        from reuse.copyright import _COPYRIGHT_PREFIXES, make_copyright_line
        line = make_copyright_line(case["h"], case["y"], case["p"])
        m = impl_search(line)
        want = (_COPYRIGHT_PREFIXES[case["p"]], case["y"], case["h"])
        got = None if m is None else (m.groupdict()["prefix"], m.groupdict()["year"], m.groupdict()["statement"])
        return ("ok|" if got == want and m.start() == 0 and m.groupdict()["copyright"] == line else "bad|") + enc(line)

    def model_lines(self, case):
        y = case["y"]
        if y is None:
            yf = "none"
        elif len(y) == 4:
            yf = "single/" + enc(y)
        else:
            a, b = y[:4], y[-4:]
            mid = y[4:-4]
            yf = "range/%s/%s/%s/%s" % (enc(a), "1" if mid.startswith(" ") else "0", "1" if mid.endswith(" ") else "0", enc(b))
        return ["c20hyp\t%s\t%s\t%s" % (case["p"], yf, enc(case["h"]))]

    def agree(self, case, impl_out, model_out):
        hyp, line = model_out.split("|")
        ok, iline = impl_out.split("|")
        if hyp != "1":
            return True               # the theorem says nothing here
        self._hyp = getattr(self, "_hyp", set())
        self._hyp.add((case["h"], case["y"], case["p"]))
        # hypotheses hold: the built line is the one the theorem is about and it is read back exactly
        return ok == "ok" and (iline == line)

    def nontrivial(self, case, impl_out):
        k = (case["h"], case["y"], case["p"])
        return k if k in getattr(self, "_hyp", ()) else None

    def oracle(self, case, impl_out):
        return None


class TheoremFullStream(TheoremStream):
    """Ties C20_make_parse / C20_make_then_parse (no per-case hypothesis) to the implementation.  The driver evaluates the
    *syntactic* hypotheses (year form, Spec.WFHolderL, Spec.noNoticeInside); where they hold the real make_copyright_line +
    reader must return exactly (prefix, year, holder).  Also checked on every case: the Python statement of the holder
    domain (wf_holder) implies the Lean hypotheses, and the hypotheses of the older C20_make_parse_partial imply them."""
    name = "theoremfull"
    exhaustive = True
    rule = ("for every (holder, year form, prefix) of the makeparse grid extended by holders at the edges of the predicates ('-Free', "
            "'-2020 Jane', '(c) Jane', '(c)Jane', tags at the end, tags glued, inner tags followed by tab / no-break space) the compiled "
            "driver evaluates the hypotheses of C20_make_parse (year form well-formed, Spec.WFHolderL on the generated END pattern, "
            "Spec.noNoticeInside); where they hold the implementation must read back exactly that prefix, year and holder; wf_holder "
            "(Python) => Lean hypotheses; hypotheses of C20_make_parse_partial => Lean hypotheses; non-trivial = hypotheses hold")
    EDGE = ["-Free Software Ltd", "-2020 Jane", "- 2020, Jane", "-2020Jane", "-", "(c) Jane", "(c)Jane", "(C)", "(", "Jane (C) Doe",
            "Jane Copyright", "Jane Copyright\tDoe", "Jane ©\u00a0Doe", "Jane SPDX-FileCopyrightText: Doe", "Jane SPDX-FileCopyrightText:Doe",
            "Jane SPDX-SnippetCopyrightText: Doe", "x Copyright(c) y", "Copyright(C) y", "Jane Doe\u00a0", "Jane\rDoe", "©",
            "Copyright\u3000Ideographic", "٢٠٢٠ Arabic-Indic", "Jane 2020-2021 Doe", "*/ Jane", "Jane -->x"]

    def cases(self, tier, rng):
        from reuse.copyright import _COPYRIGHT_PREFIXES
        for h in MakeParseStream.HOLD + self.EDGE:
            for y in YEARS:
                for p in _COPYRIGHT_PREFIXES:
                    yield {"h": h, "y": y, "p": p}

    def model_lines(self, case):
        return [TheoremStream.model_lines(self, case)[0].replace("c20hyp", "c20wf", 1)]

    def agree(self, case, impl_out, model_out):
        hyp, old, wfl, nn, line = model_out.split("|")
        ok, iline = impl_out.split("|")
        if wf_holder(case["h"]) and hyp != "1":
            return False              # the Lean predicate must cover the domain the property is stated over
        if old == "1" and hyp != "1":
            return False              # C20_wf_narrower / C20_earlier_none: the new theorem subsumes the old one
        if hyp != "1":
            return True               # the theorem says nothing here
        self._hyp = getattr(self, "_hyp", set())
        self._hyp.add((case["h"], case["y"], case["p"]))
        if iline != line:
            return False              # the theorem speaks about another line than the one the code builds
        if ok != "ok":                # hypotheses hold, conclusion fails on the real code: a concrete failing input (see oracle)
            self._bad = getattr(self, "_bad", {})
            self._bad[(case["h"], case["y"], case["p"])] = dec(iline)
        return True

    def oracle(self, case, impl_out):
        line = getattr(self, "_bad", {}).get((case["h"], case["y"], case["p"]))
        if line is None:
            return None
        m = impl_search(line)
        return ("make-parse-theorem: the hypotheses of C20_make_parse hold for holder %r, year %r, prefix %r, but the reader sees %r in the "
                "built line %r" % (case["h"], case["y"], case["p"], None if m is None else (m.groupdict()["prefix"], m.groupdict()["year"],
                                                                                            m.groupdict()["statement"], m.start()), line))


class MergeOracleStream(Stream):
    name = "mergeoracle"
    rule = ("merge_copyright_lines on random sets (1-7) of notices built from (prefix, year form, holder) triples — 12 holders incl. holders "
            "containing 'Copyright' and '©' — under 3 iteration orders each; oracle from the generator's ground truth: every holder "
            "keeps exactly one line, its year range starts at the smallest and ends at the largest year stated for it; non-trivial = several "
            "lines for one holder")
    HOLD = ["Jane Doe", "ACME Inc.", "José", "Copyright Clearance Center", "Team C#", "X <x@y.z>", "Foo", "Bar & Baz", "© Holdings", "张三",
            "Copy Right Inc.", "Q"]

    def cases(self, tier, rng):
        from reuse.copyright import _COPYRIGHT_PREFIXES
        prefs = list(_COPYRIGHT_PREFIXES.values())
        for _ in range(5000 if tier == "thorough" else 700):
            triples = []
            hs = rng.sample(self.HOLD, rng.randint(1, 3))
            for _ in range(rng.randint(1, 7)):
                h = rng.choice(hs)
                y = rng.choice(YEARS)
                if ("Copyright" in h or "©" in h) and y is None:
                    y = "2020"      # without a year in between, such a holder would be read as part of the prefix (ambiguous input)
                triples.append((rng.choice(prefs), y, h))
            lines = []
            truth = []
            for p, y, h in triples:
                l = "%s %s%s" % (p, (y + " ") if y else "", h)
                if l not in lines:
                    lines.append(l)
                    truth.append((p, y, h))
            order = list(range(len(lines)))
            rng.shuffle(order)
            yield {"lines": [lines[i] for i in order], "truth": [truth[i] for i in order]}

    def impl(self, case):
        from reuse.copyright import merge_copyright_lines

        class OrderedSet(list):
            pass
        return enc_list(sorted(merge_copyright_lines(OrderedSet(case["lines"]))))

    def model_lines(self, case):
        return ["merge\t" + enc_list(case["lines"])]

    def model_out(self, case, outs):
        return enc_list(sorted(dec_list(outs[0])))

    def oracle(self, case, impl_out):
        if impl_out.startswith("EXC"):
            return "merge-crash: " + impl_out
        out = dec_list(impl_out)
        holders = {}
        for p, y, h in case["truth"]:
            ys = holders.setdefault(h, [])
            if y:
                ys += re.findall(r"\d{4}", y)
        for h, ys in holders.items():
            mine = [l for l in out if l.endswith(" " + h) or l == h]
            # a line for holder "Foo" must not be mistaken for one of "Bar Foo": compare by the reader's statement
            mine = [l for l in out if (impl_search(l) and impl_search(l).groupdict()["statement"] == h) or l == h]
            if len(mine) != 1:
                return "merge-holder: holder %r has %d lines in %r (input %r)" % (h, len(mine), out, case["lines"])
            m = impl_search(mine[0])
            got = re.findall(r"\d{4}", (m.groupdict()["year"] or "")) if m else []
            if ys:
                if not got or min(got) != min(ys) or max(got) != max(ys):
                    return "merge-years: holder %r stated years %s but the merged line is %r (input %r)" % (h, sorted(set(ys)), mine[0], case["lines"])
            elif got:
                return "merge-years-invented: %r" % mine[0]
        if len(out) != len(holders):
            return "merge-extra-lines: %r for holders %r" % (out, sorted(holders))
        return None

    def classify(self, case, failure):
        # known finding: an input line whose holder contains a word of a higher-priority pattern later in the line
        # ('© 2019 Copyright Clearance Center') is misread by the reader itself — before any merging happens
        for line, (p, y, h) in zip(case["lines"], case["truth"]):
            m = impl_search(line)
            if m is None or m.groupdict()["statement"] != h or m.groupdict()["year"] != y:
                return "c20-reader-inner-notice"
        return None

    def nontrivial(self, case, impl_out):
        hs = [t[2] for t in case["truth"]]
        return impl_out if len(hs) != len(set(hs)) else None

    def show(self, case):
        return {"lines": case["lines"]}


def year_form_field(y):
    if y is None:
        return "none"
    if len(y) == 4:
        return "single/" + enc(y)
    a, b, mid = y[:4], y[-4:], y[4:-4]
    return "range/%s/%s/%s/%s" % (enc(a), "1" if mid.startswith(" ") else "0", "1" if mid.endswith(" ") else "0", enc(b))


class MergeTheoremStream(Stream):
    """Ties C20_merge_lines to the implementation: the driver evaluates the theorem's hypotheses (every input notice has a
    table prefix, a well-formed year form and a WFHolderL holder without a notice inside); where they hold, the real
    merge_copyright_lines on the lines the real make_copyright_line builds must show the theorem's conclusion, judged with
    the tool's own reader and _parse_copyright_year."""
    name = "mergetheorem"
    rule = ("random lists of 1-8 notices (prefix key x 8 year forms incl. digits of other scripts x 16 holders incl. holders that begin "
            "like / end in a tag and holders outside the predicates) of 1-3 holders; the compiled driver evaluates the hypotheses of "
            "C20_merge_lines; where they hold: the lines make_copyright_line builds are the theorem's input lines, and "
            "merge_copyright_lines returns exactly one line per holder which the reader reads back as a table prefix that is a most "
            "common one of the holder's notices, the holder, and a year whose ends are stated years enclosing numerically every stated "
            "year (none iff none stated); non-trivial = hypotheses hold and some holder has several lines")
    HOLD = ["Jane Doe", "ACME Inc.", "José Álvarez", "Copyrighted Works Ltd.", "©tudio Ñandú GmbH", "(C)ompany", "Acme Copyright", "Team ©",
            "-Free Software Ltd", "Jane Doe <jane@example.com>", "张三", "X", "Copyright", "Copyright Clearance Center", "© Holdings",
            "Foo {Bar}"]
    YEARFORMS = YEARS + ["2016- 2018", "2016 -2018", "٢٠٢٠", "２０１６-2017"]

    def cases(self, tier, rng):
        from reuse.copyright import _COPYRIGHT_PREFIXES
        keys = list(_COPYRIGHT_PREFIXES)
        for _ in range(6000 if tier == "thorough" else 900):
            hs = rng.sample(self.HOLD[:12] if rng.random() < 0.8 else self.HOLD, rng.randint(1, 3))
            ns = []
            few = rng.sample(keys, rng.randint(1, 3))
            for _ in range(rng.randint(1, 8)):
                n = [rng.choice(few), rng.choice(self.YEARFORMS), rng.choice(hs)]
                if n not in ns:
                    ns.append(n)
            yield {"ns": ns}

    def impl(self, case):
        from reuse.copyright import make_copyright_line, merge_copyright_lines

        class OrderedSet(list):
            pass
        lines = []
        for k, y, h in case["ns"]:
            l = make_copyright_line(h, y, k)
            if l not in lines:
                lines.append(l)
        return enc_list(lines) + "|" + enc_list(sorted(merge_copyright_lines(OrderedSet(lines))))

    def model_lines(self, case):
        ns = case["ns"]
        return ["c20mergehyp\t%s\t%s\t%s" % (";".join(n[0] for n in ns), ";".join(year_form_field(n[1]) for n in ns),
                                             enc_list([n[2] for n in ns]))]

    def _conclusion(self, case, out):
        from reuse.copyright import _COPYRIGHT_PREFIXES, _parse_copyright_year
        if len(out) != len(set(out)):
            return "duplicates"
        holders = {}
        for k, y, h in case["ns"]:
            d = holders.setdefault(h, {"years": [], "prefixes": []})
            d["prefixes"].append(_COPYRIGHT_PREFIXES[k])
            if y:
                d["years"] += [y[:4]] if len(y) == 4 else [y[:4], y[-4:]]
        seen = {}
        for o in out:
            m = impl_search(o)
            if m is None or m.start() != 0 or m.groupdict()["copyright"] != o:
                return "output line %r is not read back as one notice" % o
            g = m.groupdict()
            if g["statement"] not in holders:
                return "output line %r names no holder of the input" % o
            if g["statement"] in seen:
                return "two lines for holder %r" % g["statement"]
            seen[g["statement"]] = o
            d = holders[g["statement"]]
            if g["prefix"] not in d["prefixes"] or any(d["prefixes"].count(p) > d["prefixes"].count(g["prefix"]) for p in d["prefixes"]):
                return "prefix %r of %r is not a most common one of %r" % (g["prefix"], o, d["prefixes"])
            ends = _parse_copyright_year(g["year"])
            if not d["years"]:
                if ends:
                    return "year invented in %r" % o
                continue
            if not ends or any(e not in d["years"] for e in ends):
                return "ends %r of %r are not stated years %r" % (ends, o, d["years"])
            if any(not (int(ends[0]) <= int(y) <= int(ends[-1])) for y in d["years"]):
                return "years %r not enclosed by %r" % (d["years"], o)
            if len(ends) == 2 and not int(ends[0]) < int(ends[1]):
                return "degenerate range %r" % o
        if set(seen) != set(holders):
            return "holders %r have no line" % sorted(set(holders) - set(seen))
        return None

    def agree(self, case, impl_out, model_out):
        hyp, lines = model_out.split("|")
        if hyp != "1":
            return True               # the theorem says nothing here
        ilines, out = impl_out.split("|")
        if dec_list(ilines) != [l for i, l in enumerate(dec_list(lines)) if l not in dec_list(lines)[:i]]:
            self._why = "make_copyright_line builds other lines than the theorem's input"
            return False
        self._hyp = getattr(self, "_hyp", set())
        self._hyp.add(repr(case["ns"]))
        why = self._conclusion(case, dec_list(out))
        if why is not None:           # hypotheses hold, conclusion fails on the real code: a concrete failing input (see oracle)
            self._bad = getattr(self, "_bad", {})
            self._bad[repr(case["ns"])] = (why, dec_list(out))
        return True

    def nontrivial(self, case, impl_out):
        hs = [n[2] for n in case["ns"]]
        return repr(case["ns"]) if repr(case["ns"]) in getattr(self, "_hyp", ()) and len(hs) != len(set(hs)) else None

    def oracle(self, case, impl_out):
        bad = getattr(self, "_bad", {}).get(repr(case["ns"]))
        if bad is None:
            return None
        return "merge-theorem: the hypotheses of C20_merge_lines hold for the notices %r but merge_copyright_lines gives %r: %s" % (
            case["ns"], bad[1], bad[0])

    def show(self, case):
        return case


class MergeCoverageStream(Stream):
    """Merging never loses a stated year, however the year was written.  The oracle does not use the tool's reader: a
    notice is prefix + years + holder by construction, and afterwards every four-digit year of every input notice must
    lie within the span of years of some output line that still names that holder."""
    name = "mergecoverage"
    rule = ("merge_copyright_lines on sets of 2-4 notices of one or two holders where one notice writes its years in a form the "
            "year parser may or may not understand (en dash, em dash, slash, comma list, 'to', two-digit end, spaces around the dash, "
            "trailing comma); oracle (reader-independent): every four-digit year of every input notice lies within the span of the "
            "four-digit years of an output line that contains the holder's name; non-trivial = distinct input set")
    FORMS = ["2016–2018", "2016—2018", "2016/2018", "2016, 2018", "2016,2018", "2016 to 2018", "2016-18", "2016 - 2018", "2016-2018",
             "2016 -2018", "2016- 2018", "2016,", "2016-2018,", "2016 – 2018", "2016‑2018", "２０１６"]
    HOLD = ["Jane Doe", "ACME Inc.", "José Álvarez"]

    def cases(self, tier, rng):
        from reuse.copyright import _COPYRIGHT_PREFIXES
        prefs = list(_COPYRIGHT_PREFIXES.values())
        for form in self.FORMS:
            for _ in range(40 if tier == "thorough" else 6):
                h = rng.choice(self.HOLD)
                truth = [(rng.choice(prefs), form, h)]
                for _ in range(rng.randint(1, 3)):
                    truth.append((rng.choice(prefs), rng.choice(["2021", "2010", "2019-2023", "1999 - 2001", None]),
                                  h if rng.random() < 0.8 else rng.choice(self.HOLD)))
                lines = []
                for p, y, hh in truth:
                    l = "%s %s%s" % (p, (y + " ") if y else "", hh)
                    if l not in lines:
                        lines.append(l)
                rng.shuffle(lines)
                yield {"lines": lines, "truth": [list(t) for t in truth]}

    def impl(self, case):
        from reuse.copyright import merge_copyright_lines

        class OrderedSet(list):
            pass
        return enc_list(sorted(merge_copyright_lines(OrderedSet(case["lines"]))))

    def model_lines(self, case):
        return ["merge\t" + enc_list(case["lines"])]

    def model_out(self, case, outs):
        return enc_list(sorted(dec_list(outs[0])))

    def oracle(self, case, impl_out):
        if impl_out.startswith("EXC"):
            return "merge-crash: " + impl_out
        out = dec_list(impl_out)
        for p, y, h in case["truth"]:
            years = [int(x) for x in re.findall(r"(?<!\d)\d{4}(?!\d)", y or "")]
            named = [l for l in out if h in l]
            if not named:
                return "merge-holder-lost: holder %r of the input %r is in no output line %r" % (h, case["lines"], out)
            for yr in years:
                ok = False
                for l in named:
                    ys = [int(x) for x in re.findall(r"(?<!\d)\d{4}(?!\d)", l)]
                    if ys and min(ys) <= yr <= max(ys):
                        ok = True
                if not ok:
                    return "merge-year-lost: year %d stated for %r in %r is outside every output line naming the holder: %r" % (
                        yr, h, case["lines"], out)
        return None

    def nontrivial(self, case, impl_out):
        return tuple(case["lines"])

    def show(self, case):
        return {"lines": case["lines"]}


# --------------------------------------------------------------------------
# merging at the level of the header: create_header / find_and_replace_header / add_header_to_file / the command line


#: year forms a person writes by hand and the reader knows (one year, a range with or without a blank on either side of the dash)
HAND_YEARS = ["2009-2014", "2009 -2014", "2009- 2014", "2009 - 2014", "2012", "2012,", "1998", "2003-2004", "2016 - 2019", "2019", None]
#: holders none of which is part of another (the oracle counts the lines naming a holder)
MERGE_HOLDERS = ["Jane Doe <jane@example.com>", "Example, Inc.", "José Álvarez", "张三", "R&D Ltd.", "The FOO Developers"]
MERGE_MODES = ["new-year", "same-line", "licence-only", "contributor-only", "other-holder", "new-year-other-prefix"]


def notice_text(p, y, h):
    return "%s %s%s" % (p, (y + " ") if y else "", h)


def years_in(s):
    return [int(x) for x in re.findall(r"(?<!\d)\d{4}(?!\d)", s or "")]


def judge_merged(text, stated, where):
    """Reader-independent: `stated` = [(holder, year text or None)] is everything the header held before and everything
    requested (generator's ground truth).  In `text` every holder is named on exactly ONE line, and the four-digit years
    on that line span every year stated for the holder."""
    lines = re.split(r"\r\n|\r|\n", text)
    holders = {}
    for h, y in stated:
        holders.setdefault(h, []).extend(years_in(y))
    for h, ys in holders.items():
        mine = [l for l in lines if h in l]
        if not mine:
            return "merge-holder-lost: holder %r is named nowhere in %s: %r" % (h, where, text[:300])
        if len(mine) != 1:
            return "merge-not-single: holder %r has %d lines in %s after --merge-copyrights: %r" % (h, len(mine), where, mine)
        got = years_in(mine[0])
        if ys and (not got or min(got) > min(ys) or max(got) < max(ys)):
            return "merge-span: years %s were stated for %r, the one line in %s is %r" % (sorted(set(ys)), h, where, mine[0])
    return None


class HeaderMergeStream(Stream):
    """--merge-copyrights where it is used: a header that already holds notices (several of one holder from earlier
    non-merging runs, compact and spaced ranges written by hand), and a merging run that requests a new year, a line
    that is already there character for character, no notice at all, or another holder."""
    name = "headermerge"
    rule = ("create_header(header=...) / find_and_replace_header / add_header_to_file with merge_copyrights, and histories of real `reuse "
            "annotate` runs (k non-merging runs, then one with --merge-copyrights) read back with `reuse lint --json`: the existing header "
            "(own comment style of 8 styles, or the .license pseudo style) holds 1-4 notices of 1-2 holders in 11 hand-written year forms "
            "(2009-2014, 2009 -2014, 2009- 2014, 2009 - 2014, single years, trailing comma, none) under any of the ten prefixes; the "
            "merging run requests {a new year, a new year under another prefix, a line already present character for character, only a "
            "licence, only a contributor, another holder}; oracle from the generator's ground truth, without the tool's reader: every "
            "holder stands on exactly one line of the result and that line's years span every year stated before or requested; "
            "non-trivial = distinct (level, mode, style, number of notices of the merged holder)")
    STYLES = ["PythonCommentStyle", "CCommentStyle", "CppCommentStyle", "HtmlCommentStyle", "LispCommentStyle", "TexCommentStyle",
              "HaskellCommentStyle", "EmptyCommentStyle"]
    LEVELS = ["create_header", "replace", "file", "file", "cli"]

    def cases(self, tier, rng):
        from reuse.copyright import _COPYRIGHT_PREFIXES
        prefs = list(_COPYRIGHT_PREFIXES.items())
        n = 1500 if tier == "thorough" else 260
        for i in range(n):
            level = self.LEVELS[i % len(self.LEVELS)]
            mode = MERGE_MODES[(i // len(self.LEVELS)) % len(MERGE_MODES)]
            hs = rng.sample(MERGE_HOLDERS, rng.choice([1, 1, 2]))
            main = hs[0]
            truth = []
            for _ in range(rng.choice([1, 2, 2, 3, 3, 4])):
                k, p = rng.choice(prefs)
                t = [k, p, rng.choice(HAND_YEARS), main if rng.random() < 0.75 else rng.choice(hs)]
                if level == "cli":
                    t[2] = rng.choice(["2012", "1998", "2019", "2009 - 2014", "2003 - 2004", None])      # what --year can say
                if not any(notice_text(x[1], x[2], x[3]) == notice_text(t[1], t[2], t[3]) for x in truth):
                    truth.append(t)
            if mode == "new-year":
                k, p = rng.choice([(x[0], x[1]) for x in truth if x[3] == main] or prefs)
                req = [[k, p, rng.choice(["2021", "1990", "2011", "2020 - 2023"]), main]]
            elif mode == "new-year-other-prefix":
                k, p = rng.choice(prefs)
                req = [[k, p, rng.choice(["2021", "1990", "2011"]), main]]
            elif mode == "same-line":
                req = [list(rng.choice(truth))]
            elif mode == "other-holder":
                k, p = rng.choice(prefs)
                req = [[k, p, rng.choice(["2021", None, "2001-2002"]), rng.choice([h for h in MERGE_HOLDERS if h not in hs])]]
            else:
                req = []
            yield {"level": level, "mode": mode, "s": rng.choice(self.STYLES) if level != "cli" else rng.choice(["PythonCommentStyle", "CCommentStyle", "HtmlCommentStyle", "EmptyCommentStyle"]),
                   "truth": truth, "req": req, "lic_old": rng.choice([[], ["MIT"], ["ISC", "MIT"]]),
                   "lic": ["Apache-2.0"] if mode == "licence-only" or rng.random() < 0.3 else [],
                   "con": ["Alice"] if mode == "contributor-only" or rng.random() < 0.15 else [],
                   "shebang": rng.random() < 0.25, "multi": rng.random() < 0.3, "body": rng.choice(["", "x = 1\n", "x = 1\n\ny = 2"]),
                   "le": rng.choice(["\n", "\n", "\n", "\r\n", "\r"])}

    # ---- the text the merging run meets (header-level cases)
    def _old_block(self, case):
        import annotcorr
        st = annotcorr.style_by_name(case["s"])
        hdr = "\n".join([notice_text(p, y, h) for k, p, y, h in case["truth"]] + ([""] if case["lic_old"] else [])
                        + ["SPDX-License-Identifier: " + l for l in case["lic_old"]])
        return st, st.create_comment(hdr, force_multi=case["multi"] and st.can_handle_multi())

    def _info(self, case):
        from reuse import ReuseInfo, _LICENSING
        return ReuseInfo(spdx_expressions={_LICENSING.parse(x) for x in case["lic"]}, copyright_lines={notice_text(p, y, h) for k, p, y, h in case["req"]},
                         contributor_lines=set(case["con"]))

    def impl(self, case):
        import annotcorr
        from reuse.header import create_header, find_and_replace_header
        if case["level"] == "cli":
            return self._impl_cli(case)
        st, block = self._old_block(case)
        if case["level"] == "create_header":
            return "W:" + enc(create_header(self._info(case), header=block + "\n", style=st, merge_copyrights=True))
        first = (st.SHEBANGS[0] + " first line\n") if (case["shebang"] and st.SHEBANGS) else ""
        text = first + block + "\n" + ("\n" + case["body"] if case["body"] else "")
        if st.__name__ == "EmptyCommentStyle":
            text = block + "\n"
        if case["level"] == "replace":
            return "W:" + enc(find_and_replace_header(text, self._info(case), style=st, merge_copyrights=True))
        text = text.replace("\n", case["le"])
        c = {"s": case["s"], "f": "00110", "tmpl": "default", "cpr": sorted(self._info(case).copyright_lines), "lic": case["lic"], "con": case["con"], "t": text}
        if st.__name__ == "EmptyCommentStyle":
            c.update(ext=".zzz", sib=text, t="payload\n")
        return annotcorr.run_annotate(c)

    def _impl_cli(self, case):
        import json
        import cli
        name = {"PythonCommentStyle": "f.py", "CCommentStyle": "f.c", "HtmlCommentStyle": "f.html", "EmptyCommentStyle": "f.zzz"}[case["s"]]
        dot = ["--fallback-dot-license"] if case["s"] == "EmptyCommentStyle" else []
        with cli.scratch("rv-c20-") as root:
            cli.write_tree(root, {name: case["body"] or "payload = 1\n", "LICENSES/MIT.txt": "MIT\n"})      # lint passes over empty files
            rcs = []
            steps = [(t, False) for t in case["truth"]] + [(None, True)]
            for t, merge in steps:
                argv = ["annotate"]
                if merge:
                    for k, p, y, h in case["req"]:
                        argv += ["--copyright", h, "--copyright-prefix", k] + (self._year_args(y))
                    for l in case["lic"]:
                        argv += ["--license", l]
                    for c in case["con"]:
                        argv += ["--contributor", c]
                    if not case["req"] and not case["lic"] and not case["con"]:
                        argv += ["--license", "MIT"]
                    argv.append("--merge-copyrights")
                else:
                    k, p, y, h = t
                    argv += ["--copyright", h, "--copyright-prefix", k] + self._year_args(y)
                    if not rcs and case["lic_old"]:
                        argv += ["--license", case["lic_old"][0]]
                code, out, exc = cli.run_cli(argv + dot + [name], root)
                if exc is not None:
                    return "EXC:%s:%s" % (type(exc).__name__, str(exc)[:100])
                rcs.append(code)
            target = name + ".license" if dot else name
            with open(root + "/" + target, "r", encoding="utf-8", newline="") as fp:
                text = fp.read()
            code, js, exc = cli.lint_json(root)
            read = []
            if js is not None:
                for f in js.get("files", []):
                    if f["path"] == name:
                        read = sorted(c["value"] for c in f["copyrights"])
            return "C:" + json.dumps({"rcs": rcs, "text": text, "lint": read}, sort_keys=True)

    @staticmethod
    def _year_args(y):
        if y is None:
            return ["--exclude-year"]
        ys = re.findall(r"\d{4}", y)
        out = []
        for v in ys:
            out += ["--year", v]
        return out

    def oracle(self, case, impl_out):
        import json
        if impl_out.startswith("EXC"):
            return "merge-crash: " + impl_out
        stated = [(h, y) for k, p, y, h in case["truth"]] + [(h, y) for k, p, y, h in case["req"]]
        if impl_out.startswith("C:"):
            out = json.loads(impl_out[2:])
            if any(out["rcs"]):
                return "merge-run-failed: exit statuses %r of the annotate runs" % (out["rcs"],)
            why = judge_merged(out["text"], stated, "the annotated file")
            if why is None:
                why = judge_merged("\n".join(out["lint"]), stated, "the notices `reuse lint --json` reads")
            return why
        if not impl_out.startswith("W:"):
            return "merge-run-failed: %s" % impl_out
        return judge_merged(dec(impl_out[2:]), stated, "the new header")

    def nontrivial(self, case, impl_out):
        main = case["truth"][0][3]
        return (case["level"], case["mode"], case["s"], sum(1 for t in case["truth"] if t[3] == main)) if impl_out[:2] in ("W:", "C:") else None

    def show(self, case):
        return case


class YearOptionStream(Stream):
    name = "years"
    exhaustive = True
    rule = "get_year on every multiset of <=3 --year values from 5 years, with and without --exclude-year; oracle: min - max"

    def cases(self, tier, rng):
        import itertools
        ys = ["1999", "2005", "2020", "2021", "2000"]
        for n in range(0, 4):
            for t in itertools.product(ys, repeat=n):
                yield {"years": list(t), "ex": False}
        yield {"years": [], "ex": True}

    def impl(self, case):
        from reuse.cli.annotate import get_year
        import datetime
        y = get_year(tuple(case["years"]), case["ex"])
        if y == str(datetime.date.today().year) and not case["years"]:
            return "today"
        return "none" if y is None else y

    def oracle(self, case, impl_out):
        ys = case["years"]
        if case["ex"]:
            want = "none"
        elif not ys:
            want = "today"
        elif len(ys) == 1:
            want = ys[0]
        else:
            want = "%s - %s" % (min(ys), max(ys))
        return None if impl_out == want else "year-option: %r gives %r, expected %r" % (ys, impl_out, want)


import c20s11     # noqa: E402  (needs the helpers above)
import c20s15     # noqa: E402

PROPERTY = Property(
    pid="C20",
    streams=[textcorr.CSearchStream(), MakeParseStream(), TheoremStream(), TheoremFullStream(), textcorr.MergeStream(), MergeOracleStream(), MergeTheoremStream(), MergeCoverageStream(), HeaderMergeStream(), YearOptionStream()] + pystr.DIGIT_STREAMS + c20s11.STREAMS + c20s15.STREAMS,
    assumptions=[
        "CPython's re engine on the three copyright patterns is mirrored by Model.searchLine (prefix extension candidates in backtracking "
        "priority, greedy white space, year alternatives, lazy statement up to END) and compared on every run; END is generated from the source",
        "well-formed holders (Spec.WFHolderL && Spec.noNoticeInside / wf_holder): non-empty, stripped, no line break, no tag ('SPDX-FileCopyrightText:', "
        "'SPDX-SnippetCopyrightText:', 'Copyright', '©') followed by white space inside, not starting with '(C)' / '(c)' + white space, a digit or "
        "'-YYYY' + white space, no suffix made of comment terminators — at the excluded points the tool's behaviour is compared with the model but "
        "not judged",
    ],
)
