"""C08 — annotate changes nothing but the header.

Streams: the model (`annotate` op = Model.annotateFile) against the real `add_header_to_file` / `find_and_replace_header` /
`add_new_header` / the `reuse annotate` command line, each judged by `judge` below — an oracle written from the property text
alone (it knows the comment markers of the style and what was requested, nothing about how the tool splits the text).
"""
import io
import itertools
import os
import re

from core import Property, Stream, enc, dec, enc_list, dec_list, run_driver
import cli
import annotcorr
from annotcorr import all_styles, style_by_name, rand_body, rand_info, HOLDER_LINES, LICS

BOM = "﻿"
BREAK = re.compile(r"\r\n|\r|\n")
LINE = re.compile(r"[^\r\n]*(?:\r\n|\r|\n)|[^\r\n]+")
EXOTIC = re.compile("[\x0b\x0c\x1c\x1d\x1e\x85  ]")
REUSE_WORDS = re.compile(r"SPDX-License-Identifier|SPDX-FileCopyrightText|SPDX-SnippetCopyrightText|SPDX-FileContributor|Copyright|©")


# --------------------------------------------------------------------------
# the oracle


def is_blank(s):
    return s.strip() == ""


def comment_blocks(st, lines):
    """[A, B) ranges of `lines` (contents without breaks) that form a comment block of style `st`: maximal runs of single-line
    comments; an opener line up to the first line ending with the terminator."""
    blocks = []
    n = len(lines)
    if st.SINGLE_LINE:
        def single(l):
            return l.startswith(st.SINGLE_LINE) or bool(st.SINGLE_LINE_REGEXP and st.SINGLE_LINE_REGEXP.match(l))
        i = 0
        while i < n:
            if single(lines[i]):
                j = i
                while j < n and single(lines[j]):
                    j += 1
                blocks.append((i, j))
                i = j
            else:
                i += 1
    if st.MULTI_LINE.start and st.MULTI_LINE.end:
        for i in range(n):
            if lines[i].startswith(st.MULTI_LINE.start):
                for j in range(i, n):
                    if lines[j].endswith(st.MULTI_LINE.end):
                        blocks.append((i, j + 1))
                        break
    return blocks


def drop_leading_blank_lines(s):
    """remove whitespace-only lines from the front (the first non-blank line keeps its indentation)"""
    pos = 0
    for m in LINE.finditer(s):
        if is_blank(m.group(0)):
            pos = m.end()
        else:
            break
    return s[pos:]


def is_comment_block(st, text, commented_template):
    """`text` (stripped) is one comment block of the style (or anything for a pre-commented template / the .license pseudo style)"""
    if commented_template or not (st.SINGLE_LINE or st.MULTI_LINE.start):
        return True
    lines = BREAK.split(text)
    if st.SINGLE_LINE and all(l.startswith(st.SINGLE_LINE) for l in lines):
        return True
    if st.MULTI_LINE.start and st.MULTI_LINE.end and lines[0].startswith(st.MULTI_LINE.start) and lines[-1].endswith(st.MULTI_LINE.end):
        return True
    return False


def judge(st, replace, requested, tin, tout, commented_template=False, first_line_markers=None):
    """None if `tout` is `tin` with nothing but its REUSE header changed (the property text, clause by clause), else a reason.
    `requested`: strings the new header must contain (what the user asked for)."""
    # -- byte order mark
    if tin.startswith(BOM):
        if not tout.startswith(BOM):
            return "bom-not-first: the input starts with a byte order mark, the output starts with %r" % tout[:12]
        tin, tout = tin[1:], tout[1:]
    empty_style = not (st.SINGLE_LINE or st.MULTI_LINE.start)
    # -- line-ending convention
    kin, kout = set(BREAK.findall(tin)), set(BREAK.findall(tout))
    mixed = len(kin) > 1
    if len(kin) == 1 and kout - kin:
        return "line-ending: the file uses %r, the output contains %r" % (sorted(kin), sorted(kout - kin))
    if len(kin) == 0 and len(kout) > 1:
        return "line-ending: output mixes %r" % sorted(kout)
    if mixed:
        # no single convention to keep (documented boundary): compare the lines, not their breaks
        tin, tout = BREAK.sub("\n", tin), BREAK.sub("\n", tout)
    if empty_style:
        # a .license file is all header
        for r in requested:
            if r not in tout:
                return "header-missing: %r not in the output" % r
        return None
    lin = LINE.findall(tin)
    lout = LINE.findall(tout)
    cin = [BREAK.sub("", l) for l in lin]
    # -- shebang / XML declaration stays first
    markers = st.SHEBANGS if first_line_markers is None else first_line_markers
    if cin and any(cin[0].startswith(m) for m in markers):
        first_out = BREAK.sub("", lout[0]) if lout else ""
        if first_out.rstrip() != cin[0].rstrip():
            return "first-line: %r headed the file, the output starts with %r" % (cin[0], first_out)
    # -- everything outside the replaced / inserted block is kept
    candidates = [(p, p, None) for p in range(len(lin) + 1)]
    if replace:
        for (A, B) in comment_blocks(st, cin):
            if REUSE_WORDS.search("\n".join(cin[A:B])):
                for a in range(A, B):
                    for b in range(a + 1, B + 1):
                        candidates.append((a, b, A))
    final_in = bool(lin) and BREAK.search(lin[-1]) is not None
    final_out = bool(lout) and BREAK.search(lout[-1]) is not None
    seen = set()
    for a, b, A in candidates:
        pres = ["".join(lin[:a]).rstrip()]
        if A is not None and is_blank("".join(lin[:A])):
            pres.append("".join(lin[A:a]).rstrip())      # blank lines in front of the old block may go
        post = drop_leading_blank_lines("".join(lin[b:]))
        if is_blank(post):
            post = ""
        for pre in pres:
            if (pre, post) in seen:
                continue
            seen.add((pre, post))
            if not tout.startswith(pre):
                continue
            rest = tout[len(pre):]
            if not rest.endswith(post) or len(post) > len(rest):
                continue
            middle = rest[:len(rest) - len(post)] if post else rest
            if pre and not BREAK.match(middle):
                continue                                       # the line above the header must still end
            if post and not BREAK.search(middle[-2:]):
                continue                                       # the text below starts on its own line
            block = middle.strip()
            if any(r not in block for r in requested):
                continue
            if not is_comment_block(st, block, commented_template):
                continue
            # final newline: with text below the header it is part of `post`; a file ending with the header ends with the
            # header's own line end (documented reading), so only "had one, lost it" is judged
            if not post and final_in and not final_out:
                continue
            return None
    return ("not-only-header: no way to read the output as the input with one comment block replaced or inserted "
            "(blank lines / trailing blanks next to it aside)")


# --------------------------------------------------------------------------
# shared helpers


def requested_strings(case):
    con = list(case.get("con", [])) if case.get("tmpl", "default") in ("default", "adds-text", "commented") else []
    if len(case.get("f", "")) > 2 and case["f"][2] == "1":
        # --merge-copyrights rewrites the notices (one line per holder, years as a range): the holders must still be named
        return [re.sub(r"^.*\d{4},? ", "", c) for c in case["cpr"]] + list(case["lic"]) + con
    return list(case["cpr"]) + list(case["lic"]) + con


def licence_values(texts):
    """raw licence values the model's tag reader finds in the given texts (one driver call)"""
    texts = sorted(set(texts))
    outs = run_driver(["findtag\tL\t" + enc(t) for t in texts])
    vals = set()
    for o in outs:
        vals.update(dec_list(o))
    return vals


def unparseable(values):
    from reuse import _LICENSING
    bad = []
    for v in sorted(values):
        try:
            _LICENSING.parse(v)
        except Exception:
            bad.append(v)
    return bad


def norm_breaks(t):
    return t.replace("\r\n", "\n") if "\r\n" in t else t.replace("\r", "\n")


def attach_bad(cases):
    """the model's `parses` oracle: which licence values occurring in the case texts does the real parser reject?"""
    texts = []
    for c in cases:
        texts.append(c["t"])
        texts.append(norm_breaks(c["t"]))
    try:
        bad = unparseable(licence_values(texts)) if cases else []
    except Exception:          # no driver (it did not build): the model is not compared anyway
        bad = []
    for c in cases:
        c["bad"] = bad
    return cases


def model_line(case):
    return "annotate\t%s\t%s\tdefault\t%s\t%s\t%s\t%s\t%s" % (
        case["s"], case["f"], enc_list(case["cpr"]), enc_list(case["con"]), enc_list(case["lic"]), enc_list(case.get("bad", [])),
        enc(case["t"]))


def info_of(case):
    from reuse import ReuseInfo, _LICENSING
    return ReuseInfo(spdx_expressions={_LICENSING.parse(x) for x in case["lic"]}, copyright_lines=set(case["cpr"]),
                     contributor_lines=set(case["con"]))


def classify_shape(case, failure):
    return None


class C08Stream(Stream):
    def oracle(self, case, impl_out):
        if impl_out.startswith("EXC"):
            return "crash: " + impl_out
        if not impl_out.startswith("W:"):
            return None
        st = style_by_name(case["s"])
        return judge(st, case["f"][3] == "1", requested_strings(case), self.text_in(case), dec(impl_out[2:]),
                     commented_template=case["f"][0] == "1")

    def text_in(self, case):
        return case["t"]

    def classify(self, case, failure):
        return classify_shape(case, failure)

    def nontrivial(self, case, impl_out):
        return (case["s"], impl_out) if impl_out.startswith("W:") else None

    def show(self, case):
        return {k: case[k] for k in ("s", "f", "tmpl", "cpr", "lic", "con", "t", "argv") if k in case}


# --------------------------------------------------------------------------
# stream 1: the shared annotate correspondence (templates, merge, skip-existing, .license siblings) + oracle


class AnnotateStream(annotcorr.AnnotateStream, C08Stream):
    name = "annotate"

    def text_in(self, case):
        return self._text(case)

    def cases(self, tier, rng):
        # templates that drop requested information are C07's business (the guard of _create_new_header)
        for case in annotcorr.AnnotateStream.cases(self, tier, rng):
            if not case["tmpl"].startswith("drops-"):
                yield case

    oracle = C08Stream.oracle
    classify = C08Stream.classify
    show = annotcorr.AnnotateStream.show

    def nontrivial(self, case, impl_out):
        return annotcorr.AnnotateStream.nontrivial(self, case, impl_out)


# --------------------------------------------------------------------------
# stream 2: grammar bodies x every style x {replace, no-replace}, real files (bytes in, bytes out)


FIXED_BODIES = [
    "", "\n", "x", "x\n", "\n\nx\n", "x\n\n\n", "#!/bin/sh\nx\n", "#!/bin/sh", "#!/bin/sh\n\n\nx", "<?xml version=\"1.0\"?>\n<a/>\n",
    "  \n\t\nx  \ny\n", "x\r\ny\r\n", "x\ry\r", "x\r\ny\nz\r\n", "x\n\r\ny\n",
    BOM + "x\n", BOM + "#!/bin/sh\nx\n", BOM, BOM + "<?xml version=\"1.0\"?>\r\n<a/>\r\n",
]


class BodiesStream(C08Stream):
    name = "bodies"
    rule = ("add_header_to_file on scratch files, bytes in / bytes out: every style of the table x {replace, --no-replace} x {single, forced "
            "multi-line where supported} x bodies from the grammar (byte order mark, shebang / first-line declaration, existing own-style "
            "header at the top / in the middle / at the end / absent, own and foreign comments, indented and blank-line runs, LF / CRLF / CR, "
            "with and without final newline) plus 19 fixed corner bodies; model = Model.annotateFile; oracle = line comparison written from "
            "the property text; non-trivial = distinct (style, written bytes)")

    def cases(self, tier, rng):
        k = 120 if tier == "thorough" else 22
        out = []
        for st in all_styles():
            if st.__name__ in ("UncommentableCommentStyle", "EmptyCommentStyle"):
                continue
            bodies = [rand_body(rng, st) for _ in range(k)]
            bodies += [own_header_body(rng, st) for _ in range(k // 2)]
            bodies += rng.sample(FIXED_BODIES, 6 if tier != "thorough" else len(FIXED_BODIES))
            for t in bodies:
                cpr, lic, con = rand_info(rng)
                force = "1" if (st.can_handle_multi() and rng.random() < 0.3) else "0"
                flags = "0" + force + "0" + rng.choice("10") + "0"
                out.append({"s": st.__name__, "f": flags, "tmpl": "default", "cpr": cpr, "lic": lic, "con": con, "t": t})
        return attach_bad(out)

    def impl(self, case):
        return annotcorr.run_annotate(case)

    def model_lines(self, case):
        return [model_line(case)]


def own_header_body(rng, st):
    """a body with an existing header of the file's own style and text right around it"""
    hdr = rng.choice(["SPDX-FileCopyrightText: 2017 Prev Holder\n\nSPDX-License-Identifier: ISC", "SPDX-License-Identifier: Zlib",
                      "SPDX-FileCopyrightText: 2016 Someone"])
    block = st.create_comment(hdr, force_multi=rng.random() < 0.3 and st.can_handle_multi())
    above = rng.choice(["", "", "\n", "code above\n", "code above   \n\n\n", "  \n", (st.SHEBANGS[0] if st.SHEBANGS else "#!/bin/sh") + " x\n",
                        (st.SHEBANGS[0] if st.SHEBANGS else "#!/bin/sh") + " x\n\n"])
    below = rng.choice(["", "\n", "code below\n", "\ncode below\n", "\n\n\n  indented below\nmore", "code below", "   ", "\n\n"])
    text = above + block + rng.choice(["\n", "\n", ""] if not below else ["\n"]) + below
    le = rng.choice(["\n", "\n", "\r\n", "\r"])
    if le != "\n":
        text = text.replace("\n", le)
    if rng.random() < 0.08:
        text = BOM + text
    return text


# --------------------------------------------------------------------------
# stream 3: every short body over a 9-line pool, in process (find_and_replace_header / add_new_header on LF text)


EXH_STYLES = ["PythonCommentStyle", "CCommentStyle", "CppCommentStyle", "HtmlCommentStyle", "JuliaCommentStyle"]


def pool_for(st):
    if st.SINGLE_LINE:
        one = lambda s: st.SINGLE_LINE + st.INDENT_AFTER_SINGLE + s      # noqa: E731
    else:
        one = lambda s: st.MULTI_LINE.start + " " + s + " " + st.MULTI_LINE.end      # noqa: E731
    pool = ["x = 1", "    y  ", "", one("note"), one("SPDX-License-Identifier: ISC"), one("SPDX-FileCopyrightText: 2011 Old"),
            (st.SHEBANGS[0] if st.SHEBANGS else "#!") + " first"]
    if st.MULTI_LINE.start:
        pool += [st.MULTI_LINE.start, st.INDENT_BEFORE_END + st.MULTI_LINE.end]
    else:
        pool += ["// foreign", "s = 'SPDX-License-Identifier: 0BSD'"]
    return pool


class ExhaustiveStream(C08Stream):
    name = "exhaustive"
    exhaustive = True
    rule = ("find_and_replace_header and add_new_header, in process, on every body of at most 4 (quick) / 5, for Python 6 (thorough) lines over a "
            "9-line pool per style (code, indented line with trailing blanks, blank line, own plain comment, own licence comment, own "
            "copyright comment, shebang, opener / terminator line or foreign comment / tag inside code) x 5 styles (single-line, multi-line, "
            "both, XML, Julia) x final newline or not; model and oracle as for `bodies`")

    def cases(self, tier, rng):
        out = []
        for sname in EXH_STYLES:
            st = style_by_name(sname)
            pool = pool_for(st)
            maxn = 4 if tier != "thorough" else (6 if sname == "PythonCommentStyle" else 5)
            for n in range(0, maxn + 1):
                for combo in itertools.product(pool, repeat=n):
                    body = "\n".join(combo)
                    # final newline: alternate deterministically so both states are covered at every length
                    for t in ((body + "\n", body) if n <= 3 else ((body + "\n") if (hash_combo(combo) & 1) else body,)):
                        for rep in ("10" if n <= 5 else "1"):
                            out.append({"s": sname, "f": "000" + rep + "0", "cpr": ["SPDX-FileCopyrightText: 2020 Jane Doe"],
                                        "lic": ["MIT"], "con": [], "t": t})
        return attach_bad(out)

    def impl(self, case):
        from reuse.header import find_and_replace_header, add_new_header
        from reuse.exceptions import CommentCreateError, MissingReuseInfoError
        st = style_by_name(case["s"])
        fn = find_and_replace_header if case["f"][3] == "1" else add_new_header
        try:
            return "W:" + enc(fn(case["t"], info_of(case), style=st))
        except CommentCreateError:
            return "F:commentCreate"
        except MissingReuseInfoError:
            return "F:missingInfo"

    def model_lines(self, case):
        return [model_line(case)]


def hash_combo(combo):
    h = 0
    for s in combo:
        for ch in s:
            h = (h * 131 + ord(ch)) & 0xFFFFFFF
        h = (h * 131 + 7) & 0xFFFFFFF
    return h >> 3


# --------------------------------------------------------------------------
# stream 4: the real command line


class CliStream(C08Stream):
    name = "cli"
    rule = ("`reuse annotate` (click entry point, in process) on a scratch file whose extension selects the style or with --style, with "
            "--no-replace / --multi-line / --copyright-prefix / --year / --exclude-year / --skip-existing / --merge-copyrights / "
            "--force-dot-license; the file (and the .license sibling) is read back as bytes and judged by the oracle")

    EXTS = [".py", ".c", ".cpp", ".html", ".jl", ".hs", ".tex", ".bib", ".css", ".lisp", ".bat", ".j2", ".rst", ".ml", ".vm", ".puml", ".f90"]

    def cases(self, tier, rng):
        from reuse.comment import EXTENSION_COMMENT_STYLE_MAP_LOWERCASE as EXT
        k = 400 if tier == "thorough" else 70
        for i in range(k):
            ext = rng.choice(self.EXTS)
            st = EXT[ext]
            body = rand_body(rng, st) if rng.random() < 0.6 else own_header_body(rng, st)
            argv = ["annotate", "--copyright", "Jane Doe", "--license", rng.choice(["MIT", "0BSD"]), "--year", "2020"]
            rep = True
            if rng.random() < 0.4:
                argv.append("--no-replace")
                rep = False
            multi = False
            if st.can_handle_multi() and rng.random() < 0.3:
                argv.append("--multi-line")
                multi = True
            style = st
            if rng.random() < 0.2:
                style = rng.choice([s for s in all_styles() if s.SHORTHAND and (not multi or s.can_handle_multi())])
                argv += ["--style", style.SHORTHAND]
            if rng.random() < 0.15:
                argv += ["--copyright-prefix", rng.choice(["string", "spdx-c", "symbol"])]
            if rng.random() < 0.1:
                argv.append("--merge-copyrights")
            yield {"s": style.__name__, "ext": ext, "argv": argv, "t": body, "f": "0" + ("1" if multi else "0") + "0" + ("1" if rep else "0") + "0",
                   "cpr": ["Jane Doe"], "lic": [argv[4]], "con": []}

    def impl(self, case):
        with cli.scratch("rv-c08-") as root:
            name = "f" + case["ext"]
            cli.write_tree(root, {name: case["t"]})
            code, out, exc = cli.run_cli(case["argv"] + [name], root)
            with open(os.path.join(root, name), "r", encoding="utf-8", newline="") as fp:
                after = fp.read()
            extra = sorted(set(os.listdir(root)) - {name})
            if exc is not None:
                return "EXC:%s" % type(exc).__name__
            if extra:
                return "EXTRA:%r" % extra
            if code != 0:
                return "F:%d" % code if after == case["t"] else "F-CHANGED:" + enc(after)
            return "W:" + enc(after)

    def oracle(self, case, impl_out):
        if impl_out.startswith(("EXC", "EXTRA", "F-CHANGED")):
            return "cli: " + impl_out[:80]
        return C08Stream.oracle(self, case, impl_out)


# --------------------------------------------------------------------------
# stream 6: long lines (minified bundles, one-line exports, generated tables): nothing about a file's line endings or its
# lines may depend on where in the file the first line break stands


LONG_SIZES_QUICK = [4000, 4095, 4096, 4097, 5000, 8193, 65537]
LONG_SIZES = [4000, 4094, 4095, 4096, 4097, 4100, 5000, 8191, 8193, 12289, 65535, 65537, 70001, 262145, 1048577]
LONG_FILLS = ["x", "var a=1;", "é", "<p>t</p>", "张"]
LONG_WHERE = ["first", "first", "first", "after-first", "last", "long-shebang", "only", "middle", "blank-run"]
MODEL_LIMIT = 6000      # the model's text functions are quadratic in the length of a line: compared up to here, judged by the oracle beyond


def long_body(spec, st):
    """The text of a long-line case.  spec = {n, fill, where, le, final, hdr, bom}: one run of about n characters without a
    line break, standing where `where` says; the other lines are short."""
    n, fill = spec["n"], spec["fill"]
    run = (fill * (n // len(fill) + 1))[:n]
    sheb = (st.SHEBANGS[0] if st.SHEBANGS else "#!") + " first"
    hdr = []
    if spec["hdr"]:
        hdr = st.create_comment("SPDX-FileCopyrightText: 2017 Prev Holder\n\nSPDX-License-Identifier: ISC").split("\n") + [""]
    w = spec["where"]
    if w == "first":
        lines = [run] + hdr + ["second = 2", "third"]
    elif w == "after-first":
        lines = ["a = 1"] + hdr + [run, "third"]
    elif w == "last":
        lines = hdr + ["a = 1", "b", run]
    elif w == "long-shebang":
        lines = [sheb + " " + run] + hdr + ["second = 2"]
    elif w == "only":
        lines = [run]
    elif w == "middle":
        lines = hdr + ["a = 1", run, "", "c = 3"]
    else:                                   # a run of blanks in front of the first break
        lines = [" " * n] + hdr + ["second = 2"]
    text = "\n".join(lines)
    if spec["final"]:
        text += "\n"
    text = text.replace("\n", spec["le"])
    return (BOM if spec["bom"] else "") + text


class LongLineStream(C08Stream):
    name = "longlines"
    rule = ("add_header_to_file on scratch files holding one run of 4 000 .. 1 048 577 characters without a line break (sizes around 4 KiB, "
            "8 KiB, 64 KiB, 256 KiB, 1 MiB; ASCII, two- and three-byte fills) as the first line, after a short first line, as the last line, "
            "inside a shebang line, as the only line, in the middle, or as a run of blanks, x LF / CRLF / CR x with / without final newline x "
            "own-style header below the long line or none x byte order mark x replace / --no-replace x a sample of styles (all in thorough); "
            "oracle as for `bodies` (every line break of the file is kept in its convention, every line kept); the model is compared up to "
            "6 000 characters; non-trivial = distinct (style, where, size class, ending, outcome)")

    def cases(self, tier, rng):
        thorough = tier == "thorough"
        styles = [st for st in all_styles() if st.__name__ not in ("UncommentableCommentStyle", "EmptyCommentStyle")]
        sizes = LONG_SIZES if thorough else LONG_SIZES_QUICK
        out = []
        for le in ("\r\n", "\r", "\n"):
            for n in sizes:
                reps = (3 if n < 100000 else 1) if not thorough else (8 if n < 100000 else 3)
                if le == "\n" and not thorough:
                    reps = 1
                for r in range(reps):
                    st = rng.choice(styles)
                    where = "first" if r == 0 else rng.choice(LONG_WHERE)
                    spec = {"n": n, "fill": "x" if r == 0 else rng.choice(LONG_FILLS), "where": where, "le": le, "final": rng.random() < 0.7,
                            "hdr": where != "only" and rng.random() < 0.4, "bom": rng.random() < 0.1}
                    cpr, lic, con = rand_info(rng)
                    force = "1" if (st.can_handle_multi() and rng.random() < 0.3) else "0"
                    out.append({"s": st.__name__, "f": "0" + force + "0" + rng.choice("110") + "0", "tmpl": "default", "cpr": cpr, "lic": lic, "con": con,
                                "long": spec})
        if not thorough:
            # one file of a mebibyte per non-LF convention in the quick tier as well
            for le in ("\r\n", "\r"):
                out.append({"s": "CppCommentStyle", "f": "00010", "tmpl": "default", "cpr": ["SPDX-FileCopyrightText: 2020 Jane Doe"], "lic": ["MIT"], "con": [],
                            "long": {"n": 1048577, "fill": "var a=1;", "where": "first", "le": le, "final": True, "hdr": False, "bom": False}})
        return out

    def text_in(self, case):
        return long_body(case["long"], style_by_name(case["s"]))

    def impl(self, case):
        import base64
        import zlib
        o = annotcorr.run_annotate(dict(case, t=self.text_in(case)))
        if o.startswith("W:") and case["long"]["n"] > MODEL_LIMIT:
            return "WZ:" + base64.b64encode(zlib.compress(dec(o[2:]).encode("utf-8"), 1)).decode("ascii")
        return o

    def oracle(self, case, impl_out):
        import base64
        import zlib
        if impl_out.startswith("WZ:"):
            impl_out = "W:" + enc(zlib.decompress(base64.b64decode(impl_out[3:])).decode("utf-8"))
        return C08Stream.oracle(self, case, impl_out)

    def model_lines(self, case):
        if case["long"]["n"] > MODEL_LIMIT:
            return []
        t = self.text_in(case)
        return [model_line(dict(case, t=t, bad=[]))]

    def nontrivial(self, case, impl_out):
        sp = case["long"]
        return (case["s"], sp["where"], len(str(sp["n"])), sp["le"], impl_out[:2]) if impl_out.startswith("W") else None

    def show(self, case):
        return {k: case[k] for k in ("s", "f", "cpr", "lic", "con", "long")}


# --------------------------------------------------------------------------
# stream 5: the theorems' witnesses against the real output


def splice_at(pre, post, out):
    """Spec.SpliceAt: out = (pre without the white space at its ends, one empty line | nothing) header "\n" (post | "\n" post | nothing)"""
    if pre.strip() == "":
        heads = [""]
    else:
        heads = [pre.rstrip() + "\n\n", pre.strip() + "\n\n"]
    if post.strip() == "":
        tails = [""]
    else:
        tails = [post, "\n" + post]
    for a in heads:
        for b in tails:
            if out.startswith(a) and out.endswith(b) and len(a) + len(b) + 1 <= len(out):
                mid = out[len(a):len(out) - len(b)]
                if mid.endswith("\n") and mid.strip() != "":
                    return True
    return False


class TheoremStream(C08Stream):
    """Ties C08_splice_replace / C08_splice_add to the code: the driver evaluates the hypotheses (NoExoticBreaks, not the .license
    pseudo style) and computes the theorem's witnesses `pre` and `post` from the model's sections; where the hypotheses hold the
    output of the real find_and_replace_header / add_new_header must satisfy Spec.SpliceAt for exactly these witnesses."""
    name = "theorem"
    rule = ("find_and_replace_header / add_new_header on the LF form of grammar bodies (incl. form feed / vertical tab / NEL / U+2028 inside "
            "lines, which falsify the hypothesis) x every style x both modes; the driver returns (NoExoticBreaks, pre, post) from the model's "
            "sections; where the hypothesis holds the real output must be SpliceAt(pre, post); non-trivial = hypothesis holds")

    def cases(self, tier, rng):
        k = 60 if tier == "thorough" else 10
        out = []
        for st in all_styles():
            if st.__name__ in ("UncommentableCommentStyle", "EmptyCommentStyle"):
                continue
            for i in range(k):
                t = own_header_body(rng, st) if i % 2 else rand_body(rng, st)
                t = norm_breaks(t).replace("\r", "\n").lstrip(BOM)
                if rng.random() < 0.12:
                    pos = rng.randint(0, len(t))
                    t = t[:pos] + rng.choice("\x0b\x0c\x1c\x85\u2028") + t[pos:]
                cpr, lic, con = rand_info(rng)
                force = "1" if (st.can_handle_multi() and rng.random() < 0.3) else "0"
                out.append({"s": st.__name__, "f": "0" + force + "0" + rng.choice("10") + "0", "cpr": cpr, "lic": lic, "con": con, "t": t})
        return attach_bad(out)

    def impl(self, case):
        from reuse.header import find_and_replace_header, add_new_header
        from reuse.exceptions import CommentCreateError, MissingReuseInfoError
        st = style_by_name(case["s"])
        fn = find_and_replace_header if case["f"][3] == "1" else add_new_header
        try:
            return "W:" + enc(fn(case["t"], info_of(case), style=st, force_multi=case["f"][1] == "1"))
        except CommentCreateError:
            return "F:commentCreate"
        except MissingReuseInfoError:
            return "F:missingInfo"

    def model_lines(self, case):
        return ["c08parts\t%s\t%s\t%s\t%s" % (case["s"], case["f"], enc_list(case.get("bad", [])), enc(case["t"]))]

    def agree(self, case, impl_out, model_out):
        hyp, pre, post, eof = model_out.split("|")
        if hyp != "1" or not impl_out.startswith("W:"):
            return True
        self._hyp = getattr(self, "_hyp", set())
        self._hyp.add((case["s"], case["f"], case["t"]))
        pre, post = dec(pre), dec(post)
        t = case["t"]
        # the witnesses are a prefix and a suffix of the text (of the text plus "\n" when the block ends a text without final newline)
        if not (t.startswith(pre) and (t.endswith(post) or (eof == "1" and post == "")) and len(pre) + len(post) <= len(t) + (1 if eof == "1" else 0)):
            return False
        return splice_at(pre, post, dec(impl_out[2:]))

    def oracle(self, case, impl_out):
        if EXOTIC.search(case["t"]):
            return None          # boundary: lines are not what the oracle's line notion says
        return C08Stream.oracle(self, case, impl_out)

    def nontrivial(self, case, impl_out):
        k = (case["s"], case["f"], case["t"])
        return k if k in getattr(self, "_hyp", ()) else None


import c08s6      # noqa: E402  (needs the definitions above)
import c08s11     # noqa: E402
import c08t2      # noqa: E402

PROPERTY = Property(
    pid="C08",
    streams=[BodiesStream(), ExhaustiveStream(), TheoremStream(), AnnotateStream(), CliStream(), LongLineStream()] + c08s6.STREAMS + c08s11.STREAMS + c08t2.STREAMS,
    assumptions=[
        "line-level theorems are about texts whose only line boundary after normalisation is \\n (Spec.NoExoticBreaks); with \\v \\f "
        "\\x1c-\\x1e \\x85 U+2028 U+2029 inside the first line, the header block or the lines next to it the model (full str.splitlines) "
        "and the code are compared and the oracle is not applied (stream `theorem`); anywhere else in the body they are ordinary characters "
        "that must be kept where they are (streams `exotic`, `exotic-cli`: oracle applied in full)",
        "a file mixing CRLF / CR / LF has no single line-ending convention to keep: detect_line_endings prefers CRLF over CR over LF and every "
        "break is rewritten to that; the oracle then compares line contents only (documented boundary, model and code compared)",
        "a comment block that ends a file without final newline is replaced together with the end of the file: the file then ends with the new "
        "block's own line end (header-only file gains a final newline: documented reading)",
        "'shebang or XML-declaration-like first line' is judged for the first-line markers the file's comment style declares (SHEBANGS, "
        "regenerated from the source on every run)",
        "open(newline=...) translation and UTF-8 decoding (a byte order mark arrives as U+FEFF) are CPython's, modelled as Spec.toCRLF / toCR",
    ],
)
