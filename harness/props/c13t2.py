"""C13, one more region of the input space: symbolic links among the files named to `reuse lint-file`.

A symbolic link is a file of the project that is not covered (C03: "every regular, non-empty, non-symlink file"); `reuse lint` never
lists it.  Named in F it is one of "the others" the property says lint-file ignores: nothing may be printed on its account — in
particular not the problems of the file it points to, which is not in F unless it is named itself — and it does not change the exit
status.  Where the link points (a defective covered file, a compliant one, a licence text, a directory, a file outside the project)
makes no difference.

`lintfile-links` — the trees of the other C13 streams plus 1-5 symbolic links (top level and below directories, relative targets;
                   to covered files, to LICENSES/ entries, to directories, to a file outside the project); F = some of the links,
                   alone or mixed with covered files (sometimes the link's own target), non-covered files and directories, in every
                   spelling the `lintfile` stream uses; same implementation adapter, same model op, same oracle.
"""
import os

import reports_common as rc
import c13 as base

OUTSIDE = "/etc/passwd"       # exists on every system the check runs on; only ever the *target* of a link, never read


def add_links(rng, case):
    """case["extra"] gets symbolic links; returns their paths"""
    cov = [f["p"] for f in case["files"]]
    taken = set(cov) | {x["p"] for x in case.get("extra", [])} | {"LICENSES/" + n for n in case["lic"]}
    dirs = sorted({os.path.dirname(p) for p in cov if os.path.dirname(p)})
    targets = []
    for _ in range(rng.randint(1, 3)):
        targets.append(rng.choice(cov))
    if case["lic"] and rng.random() < 0.4:
        targets.append("LICENSES/" + rng.choice(case["lic"]))
    if dirs and rng.random() < 0.4:
        targets.append(rng.choice(dirs))
    if rng.random() < 0.3:
        targets.append(None)
    links = []
    for j, t in enumerate(targets):
        where = rng.choice(["", "", "lnk dir", "lnk dir/deeper"] + dirs[:2])
        name = rng.choice(["ln-%d.py", "alias %d.c", "ln%d", "lïnk-%d.txt"]) % j
        p = (where + "/" if where else "") + name
        if p in taken or where in cov:
            continue
        taken.add(p)
        if t is None:
            to = OUTSIDE
        elif rng.random() < 0.85:
            to = os.path.relpath(t, where or ".")
        else:
            to = None        # absolute path inside the project: filled in when the tree is built
        case.setdefault("extra", []).append({"k": "symlink", "p": p, "to": to if to is not None else t, "abs": to is None})
        links.append(p)
    return links


def link_selectors(rng, case, links):
    cov = [f["p"] for f in case["files"]]
    shape = rng.choice(["links-only", "links-only", "one-link", "links+cov", "links+cov", "links+targets", "links+sel"])
    if shape == "one-link":
        pick = [rng.choice(links)]
    else:
        pick = rng.sample(links, rng.randint(1, len(links)))
    if shape == "links+cov":
        pick += rng.sample(cov, rng.randint(1, len(cov)))
    elif shape == "links+targets":
        by = {x["p"]: x for x in case["extra"] if x["k"] == "symlink"}
        for l in list(pick):
            t = by[l]["to"] if by[l].get("abs") else os.path.normpath(os.path.join(os.path.dirname(l), by[l]["to"]))
            if t in cov and rng.random() < 0.6:
                pick.append(t)
    sel = [{"p": p, "form": rng.choice(["rel", "rel", "abs", "dot"])} for p in pick]
    if shape == "links+sel":
        sel += base.selectors(rng, case)
    rng.shuffle(sel)
    return sel


class LintFileLinksStream(base.LintFileStream):
    name = "lintfile-links"
    rule = ("the same trees plus 1-5 symbolic links (top level, below new and existing directories, names with blanks and non-ASCII; "
            "relative and absolute targets: covered files with and without defects, LICENSES/ entries, directories, a file outside the "
            "project); F = one / some / all of the links, alone, with covered files, with the links' own targets, or with a selection as "
            "in `lintfile`; spellings and working directories as in `lintfile`; real `reuse lint-file F…` and `reuse lint --lines` on one "
            "tree vs the model; oracle as in `lintfile`: lint-file prints exactly lint's per-file lines for the covered files among F — a "
            "link is not one — and exits 1 iff it printed any")

    def cases(self, tier, rng):
        n = 0
        for c in rc.tree_cases(tier, rng):
            if not rc.dup_free(c):
                continue
            n += 1
            if n % 2:
                continue
            c = dict(c)
            c["extra"] = [dict(x) for x in c.get("extra", [])]
            links = add_links(rng, c) + [x["p"] for x in c["extra"] if x["k"] == "symlink" and "abs" not in x]
            links = sorted(set(links))
            if not links:
                continue
            c["F"] = link_selectors(rng, c, links)
            c["cwd"] = rng.choice(["", "", "", "sub"])
            yield c

    def impl(self, case):
        # absolute targets inside the project are only known once the scratch directory exists: build_tree takes `to` literally, so
        # the tree is built with a placeholder and the link is re-pointed afterwards (same inode layout as far as the tool can see)
        self._abs = [x for x in case.get("extra", []) if x["k"] == "symlink" and x.get("abs")]
        if not self._abs:
            return base.LintFileStream.impl(self, case)
        orig = rc.build_tree

        def build(root, c):
            orig(root, c)
            for x in self._abs:
                p = os.path.join(root, x["p"])
                os.unlink(p)
                os.symlink(os.path.join(root, x["to"]), p)
        rc.build_tree = build
        try:
            return base.LintFileStream.impl(self, case)
        finally:
            rc.build_tree = orig

    def nontrivial(self, case, impl_out):
        if impl_out.startswith("EXC"):
            return None
        return (tuple(sorted((s["p"], s["form"]) for s in case["F"]))[:4], impl_out[:80])


STREAMS = [LintFileLinksStream()]
