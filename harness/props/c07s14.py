"""C07, two more regions of the input space (both through the real `reuse annotate` and the real `reuse lint --json`).

`e2e-declared-encoding` — files whose first line *declares a character encoding*: an XML declaration (`<?xml version="1.0"
        encoding="ISO-8859-1"?>`, single / double quotes, standalone), a PEP 263 line (`# -*- coding: latin-1 -*-`), Ruby's
        `# encoding:`, a vim / Emacs modeline, `@charset "…";`, `<meta charset=…>`, `% !TEX encoding = …` — naming ISO-8859-1,
        windows-1252, UTF-16, utf-8, Shift_JIS, KOI8-R … (20 names), in files of the matching types; the request always holds
        something outside ASCII (a holder, a contributor, or just the `©` of a --copyright-prefix).  The linter decodes UTF-8 and
        knows no declarations: whatever annotate reports as written has to be read back by it.  C07's other files never start
        with such a line.  Oracle: as `e2e` (exit 0 => lint reads back exactly the request), and the bytes written are valid UTF-8.
`e2e-deep-tags` — files longer than the 4096 bytes the linter reads, without snippet markers, in which a line *behind* the window
        reads as one of the requested tags (the licence tag, the copyright notice character for character, the contributor line):
        in a string constant, in a line comment of another language, as plain text, in a comment of the file's own style; with
        --no-replace and in the default mode, 4.2-12 KiB.  "Already there" for a reader of the whole file is not "declared" for the
        linter.  Oracle: as `e2e` — exit 0 => lint reads back the request.
"""
import json

import annotgen as G
import c07 as base

ENCODINGS = ["ISO-8859-1", "iso-8859-1", "windows-1252", "UTF-16", "utf-8", "UTF-8", "latin-1", "latin1", "ISO-8859-15", "cp1252", "windows-1251",
             "Shift_JIS", "KOI8-R", "us-ascii", "ascii", "utf-16le", "EUC-JP", "ISO-8859-2", "macroman", "x-no-such-charset"]
#: (first line, extensions of files that carry such a line, rest of the file)
DECLS = [
    ('<?xml version="1.0" encoding="%s"?>', [".xml", ".svg", ".xsd", ".xhtml", ".xsl", ".html", ".ui", ".qrc"], "<root>\n  <item name=\"a\"/>\n</root>\n"),
    ("<?xml version='1.0' encoding='%s' standalone='yes'?>", [".xml", ".svg", ".xsd", ".xhtml"], "<catalogue>\n  <entry>Zoë</entry>\n</catalogue>\n"),
    ('<?xml version="1.1"  encoding = "%s" ?>', [".xml", ".xsl"], "<r/>\n"),
    ("# -*- coding: %s -*-", [".py", ".rb", ".pl", ".sh"], "x = 1\n"),
    ("# vim: set fileencoding=%s :", [".py", ".sh", ".pl", ".tcl"], "x = 1\n"),
    ("# encoding: %s", [".rb", ".py"], "puts 1\n"),
    ('@charset "%s";', [".css", ".scss"], "body { margin: 0 }\n"),
    ('<meta charset="%s">', [".html", ".htm", ".vue"], "<p>x</p>\n"),
    ('<meta http-equiv="Content-Type" content="text/html; charset=%s">', [".html", ".htm"], "<p>déjà vu</p>\n"),
    (";;; -*- coding: %s -*-", [".el", ".lisp"], "(message \"x\")\n"),
    ('" vim: set fileencoding=%s :', [".vim"], "set nocompatible\n"),
    ("%% !TEX encoding = %s", [".tex"], "\\section{x}\n"),
    ("// -*- coding: %s -*-", [".c", ".js", ".java"], "int x;\n"),
    ("-- -*- coding: %s -*-", [".hs", ".lua", ".sql"], "x = 1\n"),
]
NON_ASCII_HOLDERS = [h for h in G.HOLDERS if any(ord(c) > 127 for c in h)]
LATIN1_HOLDERS = [h for h in NON_ASCII_HOLDERS if all(ord(c) < 256 for c in h)]
NON_ASCII_CONTRIBUTORS = [c for c in G.CONTRIBUTORS if any(ord(ch) > 127 for ch in c)]
SYMBOL_PREFIXES = [p for p in G.PREFIXES if p and "symbol" in p]


def _entry_for(ext):
    from reuse import comment
    st = comment.EXTENSION_COMMENT_STYLE_MAP.get(ext)
    if st is None or st.__name__ in ("UncommentableCommentStyle", "EmptyCommentStyle"):
        return None
    return ["ext", ext, st.__name__]


def _valid_utf8(hexdata):
    try:
        bytes.fromhex(hexdata).decode("utf-8")
        return True
    except UnicodeDecodeError:
        return False


class DeclaredEncodingStream(base.EndToEndStream):
    name = "e2e-declared-encoding"
    rule = ("real `reuse annotate` then real `reuse lint --json` on one file whose first line declares a character encoding: 3 forms of the "
            "XML declaration, PEP 263, Ruby `# encoding:`, vim and Emacs modelines in 5 comment syntaxes, CSS @charset, 2 HTML <meta> forms, "
            "`% !TEX encoding`, x 20 encoding names (ISO-8859-1 / -2 / -15, windows-1252 / -1251, UTF-16, utf-16le, utf-8, Shift_JIS, EUC-JP, "
            "KOI8-R, us-ascii, macroman, an unknown name; several spellings) in files of the matching types (the file's own text ASCII or "
            "UTF-8); the request always holds a character outside ASCII: a holder (Latin-1 range 2 of 3, else CJK / Greek / emoji), a "
            "contributor, or the © of --copyright-prefix symbol / spdx-symbol / string-symbol / spdx-string-symbol; 10 prefixes, --year, "
            "--multi-line, --no-replace, --force-dot-license, template adds-text at low rates; oracle as for `e2e` (exit 0 => lint reads "
            "back exactly the request, otherwise nothing is written) and: every file written holds valid UTF-8; non-trivial = distinct "
            "(declaration form, encoding, extension, what is non-ASCII, outcome)")

    def cases(self, tier, rng):
        thorough = tier == "thorough"
        for di, (decl, exts, rest) in enumerate(DECLS):
            exts = [e for e in exts if _entry_for(e)]
            if not exts:
                continue
            encs = ENCODINGS if thorough or di < 2 else rng.sample(ENCODINGS[:4], 2) + rng.sample(ENCODINGS[4:], 2)
            for enc_name in encs:
                for _ in range(3 if thorough else 1):
                    ext = rng.choice(exts)
                    o = {"tmpl": "default" if rng.random() < 0.9 else "adds-text", "prefix": rng.choice(G.PREFIXES), "year": rng.choice([None, ["2019"], "exclude"])}
                    what = rng.choice(["holder", "holder", "holder", "prefix", "prefix", "contributor"])
                    cpr, lic, con = [rng.choice(G.HOLDERS[:4])], [rng.choice(["MIT", "0BSD", "GPL-3.0-or-later"])], []
                    if what == "holder":
                        cpr = [rng.choice(LATIN1_HOLDERS if rng.random() < 0.67 else NON_ASCII_HOLDERS)]
                        if rng.random() < 0.3:
                            cpr.append(rng.choice(G.HOLDERS[:4]))
                    elif what == "prefix":
                        o["prefix"] = rng.choice(SYMBOL_PREFIXES)
                    else:
                        con = [rng.choice(NON_ASCII_CONTRIBUTORS)]
                        if rng.random() < 0.5:
                            cpr = []
                    entry = _entry_for(ext)
                    from reuse import comment
                    st = getattr(comment, entry[2])
                    r = rng.random()
                    if r < 0.12 and st.can_handle_multi():
                        o["line"] = "multi"
                    elif r < 0.22:
                        o["no_replace"] = True
                    elif r < 0.28:
                        o["dot"] = "force"
                    le = "\r\n" if rng.random() < 0.1 else "\n"
                    body = (decl % enc_name + "\n" + rest).replace("\n", le)
                    f = {"name": G.name_for("ext", ext), "body": body, "entry": entry, "kind": "table"}
                    yield dict(o, files=[f], cpr=cpr, lic=lic, con=con, decl=di, enc=enc_name, what=what)

    def oracle(self, case, impl_out):
        why = super().oracle(case, impl_out)
        if why is not None or impl_out.startswith("EXC"):
            return why
        rec = json.loads(impl_out)["rec"]
        for k, v in rec["after_files"].items():
            if v[0] == "file" and not _valid_utf8(v[1]):
                return ("written-not-utf8: annotate (exit %s) left bytes in %s that are not valid UTF-8 — the linter, which decodes UTF-8, reads "
                        "replacement characters: %r" % (rec["rc"], k, bytes.fromhex(v[1])[:300]))
        return None

    def model_lines(self, case):
        return []

    def nontrivial(self, case, impl_out):
        if impl_out.startswith("EXC"):
            return None
        out = json.loads(impl_out)
        return (case["decl"], case["enc"], case["files"][0]["entry"][1], case["what"], out["rc"], bool(out["rec"]["changed"]))


# --------------------------------------------------------------------------

DEEP_WRAPS = {
    "string": lambda st, tag: 'STAMP = "%s"' % tag,
    "string-indented": lambda st, tag: '    header = """%s' % tag,
    "foreign-comment": lambda st, tag: ("// " if st.SINGLE_LINE != "//" else "# ") + tag,
    "plain": lambda st, tag: tag,
    "own-comment": lambda st, tag: (st.SINGLE_LINE + st.INDENT_AFTER_SINGLE + tag) if st.SINGLE_LINE else (st.MULTI_LINE.start + " " + tag + " " + st.MULTI_LINE.end),
}
DEEP_STYLES = ["PythonCommentStyle", "CCommentStyle", "CppCommentStyle", "HtmlCommentStyle", "TexCommentStyle", "HaskellCommentStyle", "LispCommentStyle",
               "CssCommentStyle", "JinjaCommentStyle", "BatchFileCommentStyle"]


class DeepTagsStream(base.EndToEndStream):
    name = "e2e-deep-tags"
    rule = ("real `reuse annotate` then real `reuse lint --json` on one file of 4.2-12 KiB (10 comment styles, a table entry each) without "
            "snippet markers and without REUSE information in the part the linter reads, in which 1-3 lines behind byte 4096 read as "
            "requested tags — the licence tag, the requested copyright notice character for character, the contributor line — inside "
            "a string constant, an indented string, a line comment of another language, as plain text, or (only with --no-replace, "
            "where the header always goes on top) in a comment of the file's own style; which of the requested items stand there: "
            "all, the licence only, the notice only, one of two licences; --no-replace (half) and the default mode; 10 prefixes, --year; "
            "oracle as for `e2e`: exit 0 => lint reads back exactly the request; non-trivial = distinct (style, wrap, which items are "
            "deep, mode, outcome)")

    def cases(self, tier, rng):
        from reuse import comment
        thorough = tier == "thorough"
        by_style = {}
        for e in G.table_entries():
            by_style.setdefault(e[2], []).append(e)
        for sname in DEEP_STYLES:
            if sname not in by_style:
                continue
            st = getattr(comment, sname)
            for wrap in DEEP_WRAPS:
                for which in ["all", "licence", "notice", "one-licence", "contributor"]:
                    for _ in range(2 if thorough else 1):
                        if not thorough and rng.random() < 0.6:
                            continue
                        no_replace = wrap == "own-comment" or rng.random() < 0.5
                        o = {"tmpl": "default", "prefix": rng.choice(G.PREFIXES), "year": rng.choice([["2019"], ["2022"], "exclude"]), "no_replace": no_replace}
                        cpr = [rng.choice(G.HOLDERS[:12])]
                        lic = rng.sample(["MIT", "0BSD", "ISC", "Apache-2.0"], 2 if which == "one-licence" or rng.random() < 0.3 else 1)
                        con = ["Alice"] if which == "contributor" or rng.random() < 0.2 else []
                        notice = G.expected_notice(cpr[0], o["prefix"], G.year_text(o["year"]))
                        tags = {"all": [notice] + ["SPDX-License-Identifier: " + l for l in lic] + ["SPDX-FileContributor: " + c for c in con],
                                "licence": ["SPDX-License-Identifier: " + l for l in lic], "notice": [notice],
                                "one-licence": ["SPDX-License-Identifier: " + lic[0]], "contributor": ["SPDX-FileContributor: Alice"]}[which]
                        size = rng.choice([4200, 4500, 5000, 6500, 8300, 12000])
                        lines, n = ["first line of the file", ""], 0
                        while sum(len(l) + 1 for l in lines) < size:
                            n += 1
                            lines.append("filler line %04d: nothing to see here, move along please" % n)
                        lines += [DEEP_WRAPS[wrap](st, t) for t in tags]
                        lines += ["last line"] * rng.randint(0, 3)
                        kind, key, style = rng.choice(by_style[sname])
                        f = {"name": G.name_for(kind, key), "body": "\n".join(lines) + "\n", "entry": [kind, key, style], "kind": "table"}
                        yield dict(o, files=[f], cpr=cpr, lic=lic, con=con, wrap=wrap, which=which)

    def model_lines(self, case):
        return []

    def classify(self, case, failure):
        k = G.shape_of(failure)
        if k == "c07-header-beyond-window":
            # not that finding: the file starts with no first-line declarations, the request is small, and the deep line is either
            # no comment of the file's style (annotate cannot take it for a header and replace it where it stands) or the run was
            # made with --no-replace (the new header always goes on top, inside the window)
            return None
        return k

    def nontrivial(self, case, impl_out):
        if impl_out.startswith("EXC"):
            return None
        out = json.loads(impl_out)
        return (case["files"][0]["entry"][2], case["wrap"], case["which"], bool(case.get("no_replace")), out["rc"], bool(out["rec"]["changed"]))

    def show(self, case):
        c = dict(case)
        c["files"] = [dict(f, body=f["body"][:120] + "...[%d characters]..." % len(f["body"]) + f["body"][-400:]) for f in case["files"]]
        return c


STREAMS = [DeclaredEncodingStream(), DeepTagsStream()]
