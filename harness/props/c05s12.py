"""C05, one more region of the input space: file and directory names that contain characters special to globs or to paths.

On POSIX a backslash, an asterisk, a question mark, a bracket are ordinary characters of a file name; the only separator is `/`.
The property's last clause — an annotation applies to a file exactly when one of its globs matches the file's whole path relative
to that REUSE.toml — is about that path as it is, so `docs/*.txt` covers `docs/a\\b.txt` (one component), `docs/*/c.rst` does not
cover `docs/a\\c.rst`, and the spelling the language provides for such names (`a\\\\b`, `\\*`) names exactly them.

`specialnames` — real projects through the real `reuse lint --json` (the route through Project / NestedReuseTOML; stream `item`
asks AnnotationsItem.matches directly): files and directories called `a\\b.txt`, `back\\`, `\\lead.c`, `x\\*y.c`, `st*r.c`, `*`,
`q?.c`, `[x].c`, `d\\e/`, `dir*/`, `w\\/` … next to their look-alikes (`a/b.txt`, `ab.txt`, `star.c`), at the root and below one or
two directories, REUSE.toml files at every level; globs: the escaped literal, the literal with one component starred, `dir/*.ext`,
`**/name`, a star before / after the special character, the *wrong* spellings (separator for backslash, unescaped), catch-alls.
Oracle: NestedStream's sandwich on the exact relative path.
"""
import os

import c05 as base

DIRS = ["docs", "lib", "d\\e", "dir*", "w\\", "[1]", "q?", "a\\b", "\\x", "**"]
NAMES = ["a\\b.txt", "a\\c.rst", "back\\", "\\lead.c", "st*r.c", "\\*.c", "q?.c", "[x].c", "a\\\\b.c", "x\\*y.c", "*", "**", "a\\", "gen\\x.c",
         "*.txt", "a\\b\\c.md", "\\", "n\\*", "plain.c", "plain.txt"]


def lookalikes(path):
    """paths a wrong reading of `path` would confuse it with: backslash read as separator, backslash dropped, star/question read as wildcard"""
    out = []
    if "\\" in path:
        q = path.replace("\\", "/")
        if "//" not in q and not q.endswith("/") and not q.startswith("/"):
            out.append(q)
        q = path.replace("\\", "")
        if q and not q.endswith("/") and "//" not in q and not q.startswith("/"):
            out.append(q)
    for ch in "*?":
        if ch in path:
            out.append(path.replace(ch, "a"))
            out.append(path.replace(ch, "ab"))
    if "[x]" in path:
        out.append(path.replace("[x]", "x"))
    return [o for o in out if all(c not in ("", ".", "..") for c in o.split("/"))]


class SpecialNamesStream(base.NestedStream):
    name = "specialnames"
    rule = ("generated projects whose file and directory names contain characters special to globs or paths — 20 file names (`a\\b.txt`, "
            "`back\\`, `\\lead.c`, `x\\*y.c`, `\\*.c`, `st*r.c`, `*`, `**`, `q?.c`, `[x].c`, `a\\\\b.c`, `a\\b\\c.md`, `\\` …) and 10 "
            "directory names (`d\\e`, `dir*`, `w\\`, `[1]`, `q?`, `\\x`, `**` …), 3-7 of them at the root, in a directory and in a directory "
            "below it, together with the files a wrong reading would confuse them with (backslash as separator: `a/b.txt`; backslash "
            "dropped: `ab.txt`; `*` `?` as wildcards: `star.c`); a REUSE.toml at the root (p=0.7), in the directory (p=0.5), in the inner "
            "one (p=0.35), each with 1-3 aggregate tables of 1-2 globs from: the file's relative path escaped (`a\\\\b.txt`, `st\\*r.c`), the "
            "same with one component replaced by `*`, `dir/*.ext`, `**/` + escaped name, `*` + escaped tail from the special character "
            "on, escaped head up to it + `*`, the relative path with `/` for every backslash (and one component of that starred), the "
            "name unescaped, `**`, `*`, `**/*`, `*/*`; the real `reuse lint --json` in the root or with an absolute --root; oracle as "
            "`nested` (per file and REUSE.toml the last table one of whose globs denotes the exact relative path, `/` the only "
            "separator; narrow / wide reading of `**/`); no model; non-trivial = distinct projects in which a file with a special "
            "character is claimed by some table and another one is not")

    def cases(self, tier, rng):
        for _ in range(1500 if tier == "thorough" else 120):
            yield self.gen(rng)

    def gen(self, rng):
        d1 = rng.choice(DIRS)
        d2 = rng.choice([d for d in DIRS if d != "**"])
        places = ["", d1, d1 + "/" + d2]
        files = ["top.c"]
        special = []
        for _ in range(rng.randint(3, 7)):
            place = rng.choice(places)
            f = (place + "/" if place else "") + rng.choice(NAMES)
            special.append(f)
            files.append(f)
            for q in lookalikes(f):
                if rng.random() < 0.6:
                    files.append(q)
        files = sorted(set(files))
        # a file and a directory cannot share a name; REUSE.toml is not a covered file
        files = [f for f in files if not any(g.startswith(f + "/") for g in files) and os.path.basename(f) != "REUSE.toml"]
        special = [f for f in special if f in files]
        tdirs = [d for d, p in (("", 0.7), (d1, 0.5), (d1 + "/" + d2, 0.35)) if rng.random() < p and (not d or any(f.startswith(d + "/") for f in files))]
        if not tdirs:
            tdirs = [""]
        esc = base.glob_escape
        tomls = []
        for d in tdirs:
            below = [f[len(d) + 1:] if d else f for f in files if d in base._ancestors(f)]
            sbelow = [f[len(d) + 1:] if d else f for f in special if d in base._ancestors(f)] or below
            tables = []
            for _ in range(rng.choice([1, 2, 2, 3])):
                gs = []
                for _ in range(rng.choice([1, 1, 2])):
                    rel = rng.choice(sbelow if rng.random() < 0.8 else below)
                    comps = rel.split("/")
                    name = comps[-1]
                    r = rng.random()
                    if r < 0.2:
                        g = esc(rel)
                    elif r < 0.3:
                        k = rng.randrange(len(comps))
                        g = "/".join("*" if i == k else esc(c) for i, c in enumerate(comps))
                    elif r < 0.4:
                        ext = name[name.rindex("."):] if "." in name[1:] else ""
                        g = "/".join([esc(c) for c in comps[:-1]] + ["*" + esc(ext)])
                    elif r < 0.48:
                        g = "**/" + esc(name)
                    elif r < 0.6:
                        idx = [i for i, c in enumerate(name) if c in "\\*?["]
                        if idx:
                            i = rng.choice(idx)
                            head, tail = name[:i + 1], name[i:]
                            g = "/".join([esc(c) for c in comps[:-1]] + [rng.choice(["*" + esc(tail), esc(head) + "*", esc(name[:i]) + "*" + esc(name[i + 1:])])])
                        else:
                            g = esc(rel)
                    elif r < 0.75:
                        # the wrong spelling: a separator where the name has a backslash
                        q = rel.replace("\\", "/")
                        qc = q.split("/")
                        if rng.random() < 0.5 and len(qc) > 1:
                            k = rng.randrange(len(qc))
                            g = "/".join("*" if i == k else esc(c) for i, c in enumerate(qc))
                        elif rng.random() < 0.3:
                            g = "**/" + esc(qc[-1])
                        else:
                            g = "/".join(esc(c) for c in qc)
                    elif r < 0.82:
                        g = rel           # unescaped: a backslash makes the next character literal, a star is a wildcard
                        if base.trailing_backslash(g):
                            g = esc(rel)
                    else:
                        g = rng.choice(["**", "*", "**/*", "*/*", "**/*.c", "*.txt"])
                    gs.append(g)
                tables.append(gs)
            tomls.append({"dir": d, "tables": tables})
        return {"files": files, "tomls": tomls, "abs": rng.random() < 0.34, "special": special}

    def nontrivial(self, case, impl_out):
        if impl_out.startswith("EXC"):
            return None
        import json
        got = json.loads(impl_out)
        sp = case.get("special", [])
        claimed = [f for f in sp if got.get(f)]
        return impl_out if claimed and len(claimed) < len(sp) else None


STREAMS = [SpecialNamesStream()]
