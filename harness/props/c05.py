"""C05 — REUSE.toml path globs match exactly the language the specification defines."""
import itertools
import json
import os
from functools import lru_cache

from core import Property, Stream, enc, enc_list


def words(alpha, maxlen):
    for n in range(maxlen + 1):
        for t in itertools.product(alpha, repeat=n):
            yield "".join(t)


def trailing_backslash(g: str) -> bool:
    i = 0
    while i < len(g):
        if g[i] == "\\":
            if i + 1 >= len(g):
                return True
            i += 2
        else:
            i += 1
    return False


def denotes(g: str, p: str, wide: bool) -> bool:
    """Property text as a memoised recursion (independent of model and code)."""

    @lru_cache(maxsize=None)
    def rec(i: int, j: int) -> bool:
        if i == len(g):
            return j == len(p)
        c = g[i]
        if c == "\\":
            if i + 1 >= len(g):
                return False  # undefined: excluded by the caller
            return j < len(p) and p[j] == g[i + 1] and rec(i + 2, j + 1)
        if c == "*":
            n = 1
            while i + n < len(g) and g[i + n] == "*":
                n += 1
            if n == 1:
                k = j
                while True:
                    if rec(i + 1, k):
                        return True
                    if k < len(p) and p[k] != "/":
                        k += 1
                    else:
                        return False
            for k in range(j, len(p) + 1):
                if rec(i + n, k):
                    return True
            if wide and i + n < len(g) and g[i + n] == "/":
                return rec(i + n + 1, j)
            return False
        return j < len(p) and p[j] == c and rec(i + 1, j + 1)

    return rec(0, 0)


def impl_row(globs, paths) -> str:
    from reuse.global_licensing import AnnotationsItem

    item = AnnotationsItem(paths=list(globs))
    return "".join("1" if item.matches(p) else "0" for p in paths)


class GlobStream(Stream):
    name = "glob"
    exhaustive = True
    rule = ("every glob of length <=N over {a . / * \\} against every path of length <=M over the same alphabet "
            "(quick N=M=4: 781x781 pairs; thorough N=M=5: 3906x3906), one row per glob; plus a second alphabet "
            "{a / * \\ newline ? [ + ( $ | ^ . } at N=3, M=3; non-trivial = distinct (glob, row) with at least one match and one non-match")
    A1 = "a./*\\"
    A2 = "a/*\\\n?[+($|^."

    def cases(self, tier, rng):
        n = 5 if tier == "thorough" else 4
        paths = list(words(self.A1, n))
        for g in words(self.A1, n):
            yield {"g": g, "P": "A1:%d" % n}
        m = 3
        for g in words(self.A2, m):
            yield {"g": g, "P": "A2:%d" % m}
        # corpus of the concrete points the pinned suite never visits
        for g in ["\\*.py", "foo\\*", "*\\*", "*\\a", "**/foo", "a/**/b", "**", "a", "***", "**/*", "*/**", "a**b", "\\\\*", "\\\\\\*", "**/"]:
            yield {"g": g, "P": "corpus"}

    _paths_cache = {}

    def paths(self, key):
        if key not in self._paths_cache:
            if key == "corpus":
                self._paths_cache[key] = ["*.py", "*foo.py", "foo*bar", "foo*", "a*", "*a", "a", "barfoo", "foo", "x/foo", "a/xb", "a/b",
                                          "a/x/b", "a\nb", "a\n", "", "/", "\\", "\\*", "\\a", "*", "**", "a/", "/a", "axb", "ab", "\\\\x"]
            else:
                a, n = key.split(":")
                self._paths_cache[key] = list(words(self.A1 if a == "A1" else self.A2, int(n)))
        return self._paths_cache[key]

    def impl(self, case):
        return impl_row([case["g"]], self.paths(case["P"]))

    def model_lines(self, case):
        return ["globrow\t%s\t%s" % (enc(case["g"]), self._enc_paths(case["P"]))]

    _enc_cache = {}

    def _enc_paths(self, key):
        if key not in self._enc_cache:
            self._enc_cache[key] = enc_list(self.paths(key))
        return self._enc_cache[key]

    def oracle(self, case, impl_out):
        g = case["g"]
        if impl_out.startswith("EXC"):
            return "glob-crash: %s" % impl_out
        if trailing_backslash(g):
            return None  # the written language gives a lone final backslash no meaning
        for p, bit in zip(self.paths(case["P"]), impl_out):
            m = bit == "1"
            if m and not denotes(g, p, True):
                return "glob-overmatch: %r matches %r, outside the widest reading" % (g, p)
            if not m and denotes(g, p, False):
                return "glob-undermatch: %r misses %r, inside the narrowest reading" % (g, p)
        return None

    def nontrivial(self, case, impl_out):
        return (case["g"], impl_out) if ("1" in impl_out and "0" in impl_out) else None


class ItemStream(Stream):
    name = "item"
    rule = ("random annotation items with 1-4 globs of length <=24 from a path-like grammar against 60 random paths "
            "derived from the globs (expansions and near misses); non-trivial = row with a match and a non-match")

    def cases(self, tier, rng):
        n = 4000 if tier == "thorough" else 600
        for _ in range(n):
            gs = [self.rand_glob(rng) for _ in range(rng.randint(1, 4))]
            ps = []
            for _ in range(60):
                ps.append(self.expand(rng.choice(gs), rng))
            yield {"gs": gs, "ps": ps}

    PIECES = ["a", "b", "src", ".py", ".", "/", "/", "*", "*", "**", "**/", "\\*", "\\\\", "\\a", "-", "_x", "é", "***", " "]

    def rand_glob(self, rng):
        return "".join(rng.choice(self.PIECES) for _ in range(rng.randint(1, 8)))

    def expand(self, g, rng):
        out = []
        i = 0
        while i < len(g):
            c = g[i]
            if c == "\\" and i + 1 < len(g):
                out.append(g[i + 1] if rng.random() < 0.9 else "\\" + g[i + 1])
                i += 2
            elif c == "*":
                n = 1
                while i + n < len(g) and g[i + n] == "*":
                    n += 1
                r = rng.random()
                if n == 1:
                    out.append(rng.choice(["", "a", "foo", "x.y", "a/b" if r < 0.15 else "q"]))
                else:
                    out.append(rng.choice(["", "a", "a/b", "x/y/z", "/"]))
                    if i + n < len(g) and g[i + n] == "/" and rng.random() < 0.4:
                        out.pop()
                        i += 1
                i += n
            else:
                out.append(c if rng.random() < 0.95 else "z")
                i += 1
        return "".join(out)

    def impl(self, case):
        return impl_row(case["gs"], case["ps"])

    def model_lines(self, case):
        return ["itemrow\t%s\t%s" % (enc_list(case["gs"]), enc_list(case["ps"]))]

    def oracle(self, case, impl_out):
        if impl_out.startswith("EXC"):
            return "glob-crash: %s" % impl_out
        gs = case["gs"]
        if any(trailing_backslash(g) for g in gs):
            return None
        for p, bit in zip(case["ps"], impl_out):
            m = bit == "1"
            if m and not any(denotes(g, p, True) for g in gs):
                return "item-overmatch: %r matches %r, outside the widest reading of every glob" % (gs, p)
            if not m and any(denotes(g, p, False) for g in gs):
                return "item-undermatch: %r misses %r" % (gs, p)
        return None

    def nontrivial(self, case, impl_out):
        return (tuple(case["gs"]), impl_out) if ("1" in impl_out and "0" in impl_out) else None


# --------------------------------------------------------------------------
# the property's last clause on real projects: "... matches the file's whole path *relative to that REUSE.toml*"


def _ancestors(p):
    parts = p.split("/")[:-1]
    return ["/".join(parts[:k]) for k in range(len(parts) + 1)]


def glob_escape(p):
    return p.replace("\\", "\\\\").replace("*", "\\*")


class NestedStream(Stream):
    """Projects with several REUSE.toml files.  A table of the REUSE.toml in directory D applies to a file iff the file lies below D
    (directory by directory, not character by character) and one of the table's globs matches the path relative to D."""
    name = "nested"
    rule = ("generated projects with a REUSE.toml in the root (p=0.6), in a directory D, in D/inner (p=0.45) and in a sibling of D (p=0.25); "
            "D from 14 names (plain, with regular-expression / glob metacharacters: `a.b`, `x+y`, `lib[1]`, `v(1)`, `d$`, `q?`, `{n}`, `w|z`, "
            "`pre^`, with a blank, non-ASCII), at top level or below `pkg/`; files in D, in D/inner, and in siblings whose names begin "
            "with D's name (D-extra/, Ds/, D + `rary.c`, D/inner-utils/, the name with `.` replaced by `x`) or are a beginning of it; every "
            "table has 1-2 globs from: `**`, `**/*.c`, `**/*.h`, `**/f.c`, `*`, `*.c`, `inner/**`, a literal file below D, and the "
            "remainder a sibling's path would leave after cutting off D's name as a string (`-extra/**`, `s/h.c`, `rary.c`); all tables "
            "`aggregate` with an own copyright marker; the real `reuse lint --json` run in the root and (every third case) with an absolute "
            "--root from elsewhere; oracle: per file and REUSE.toml, the marker listed for the file must be that of the last matching "
            "table (narrowest / widest reading of `**/` as a sandwich) when the file is below the REUSE.toml's directory, and none "
            "otherwise; no model (oracle only); non-trivial = distinct projects in which a nested REUSE.toml applies to some file")
    BASES = ["lib", "core", "a.b", "x+y", "lib[1]", "v(1)", "d$", "q?", "{n}", "w|z", "pre^", "my lib", "bibliothèque", "L"]

    def cases(self, tier, rng):
        for _ in range(1500 if tier == "thorough" else 110):
            yield self.gen(rng)

    def gen(self, rng):
        base = rng.choice(self.BASES)
        up = rng.choice(["", "", "pkg/"])
        D = up + base
        sibs = [D + "-extra/f.c", D + "s/h.c", D + "rary.c", D + "/inner-utils/e.h", D + "/innermost.c", D + ".c"]
        if "." in base:
            sibs.append(up + base.replace(".", "x") + "/f.c")
        if len(base) > 1:
            sibs.append(up + base[:-1] + "/p.c")
            sibs.append(up + base[:-1])
        inside = [D + "/f.c", D + "/g.h", D + "/inner/e.h", D + "/inner/k.c", D + "/inner/deep/f.c"]
        files = ["top.c"] + rng.sample(inside, rng.randint(2, len(inside))) + rng.sample(sibs, rng.randint(2, min(5, len(sibs))))
        if up:
            files.append("pkg/other.c")
        # a file and a directory cannot share a name
        files = [f for f in files if not any(g.startswith(f + "/") for g in files)]
        tdirs = [D]
        if rng.random() < 0.6:
            tdirs.insert(0, "")
        if rng.random() < 0.45 and any(f.startswith(D + "/inner/") for f in files):
            tdirs.append(D + "/inner")
        sd = [os.path.dirname(f) for f in files if f in sibs and "/" in f and not os.path.dirname(f).startswith(D + "/")
              and os.path.dirname(f) not in ("pkg", D)]
        if sd and rng.random() < 0.25:
            tdirs.append(rng.choice(sd))
        tomls = []
        for d in tdirs:
            below = [f[len(d) + 1:] if d else f for f in files if d in _ancestors(f)]
            # what cutting off d's name as a *string* would leave of the paths next to it
            cut = [f[len(d):].lstrip("/") for f in files if d and f.startswith(d) and d not in _ancestors(f) and f != d]
            tables = []
            for _ in range(rng.choice([1, 1, 2, 3])):
                gs = []
                for _ in range(rng.choice([1, 1, 2])):
                    r = rng.random()
                    if r < 0.3:
                        gs.append("**")
                    elif r < 0.55:
                        gs.append(rng.choice(["**/*.c", "**/*.h", "**/f.c", "**/e.h", "**/*"]))
                    elif r < 0.7:
                        gs.append(rng.choice(["*", "*.c", "*.h", "inner/**", "inner/*", "*/*.c"]))
                    elif r < 0.85 and below:
                        gs.append(glob_escape(rng.choice(below)))
                    elif cut:
                        c = rng.choice(cut)
                        gs.append(glob_escape(c) if rng.random() < 0.5 or "/" not in c else glob_escape(c.split("/")[0]) + "/**")
                    else:
                        gs.append("nomatch/**")
                tables.append(gs)
            tomls.append({"dir": d, "tables": tables})
        return {"files": sorted(set(files)), "tomls": tomls, "abs": rng.random() < 0.34}

    @staticmethod
    def marker(t, k):
        return "2000 Table %d of REUSE.toml %d" % (k, t)

    def tree(self, case):
        out = {}
        for f in case["files"]:
            out[f] = "int x;\n"
        for t, tm in enumerate(case["tomls"]):
            parts = ["version = 1\n"]
            for k, gs in enumerate(tm["tables"]):
                parts.append("\n[[annotations]]\npath = [%s]\nprecedence = \"aggregate\"\nSPDX-FileCopyrightText = \"%s\"\nSPDX-License-Identifier = \"MIT\"\n"
                             % (", ".join(json.dumps(g, ensure_ascii=False) for g in gs), self.marker(t, k)))
            out[(tm["dir"] + "/" if tm["dir"] else "") + "REUSE.toml"] = "".join(parts)
        out["LICENSES/MIT.txt"] = "text\n"
        return out

    def impl(self, case):
        import cli
        with cli.scratch("rv-c05n-") as base:
            root = os.path.join(base, "proj")
            other = os.path.join(base, "elsewhere")
            os.makedirs(root)
            os.makedirs(other)
            cli.write_tree(root, self.tree(case))
            rr = os.path.realpath(root)
            if case["abs"]:
                code, out, exc = cli.run_cli(["--no-multiprocessing", "--root", root, "lint", "--json"], other)
                cwd = other
            else:
                code, out, exc = cli.run_cli(["--no-multiprocessing", "lint", "--json"], root)
                cwd = root
            if exc is not None:
                return "EXC:%s:%s" % (type(exc).__name__, str(exc)[:100])
            try:
                rep, _ = json.JSONDecoder().raw_decode(out[out.index("{"):])
            except Exception:
                return "EXC:output:%s" % out[:100]

            def norm(s):
                for b in (cwd, rr):
                    q = os.path.realpath(os.path.join(b, s))
                    if (q == rr or q.startswith(rr + os.sep)) and os.path.lexists(q):
                        return os.path.relpath(q, rr)
                return "RAW:" + s
            res = {}
            for f in rep["files"]:
                res[norm(f["path"])] = sorted([norm(c["source"]) if c.get("source_type") == "reuse-toml" else str(c.get("source_type")), c["value"]]
                                              for c in f["copyrights"])
            return json.dumps(res, sort_keys=True, ensure_ascii=False)

    def oracle(self, case, impl_out):
        if impl_out.startswith("EXC"):
            return "nested-crash: " + impl_out
        got = json.loads(impl_out)
        where = "--root <absolute> from another directory" if case["abs"] else "run in the root"
        for f in case["files"]:
            if f not in got:
                return "nested-file-missing: %s has no entry in files[] (%s)" % (f, where)
            listed = got[f]
            for t, tm in enumerate(case["tomls"]):
                d = tm["dir"]
                tpath = (d + "/" if d else "") + "REUSE.toml"
                mine = [v for src, v in listed if src == tpath]
                ks = [k for k in range(len(tm["tables"])) if self.marker(t, k) in mine]
                if len(ks) != len(mine):
                    return "nested-foreign-value: %s: items with source %s that no table of it states: %s" % (f, tpath, mine)
                if d not in _ancestors(f):
                    if mine:
                        return ("nested-overreach: %s received the annotation %r of %s although it does not lie below %r (%s); globs %s"
                                % (f, mine, tpath, d + "/", where, [tm["tables"][k] for k in ks]))
                    continue
                rel = f[len(d) + 1:] if d else f
                narrow = [k for k, gs in enumerate(tm["tables"]) if any(denotes(g, rel, False) for g in gs)]
                wide = [k for k, gs in enumerate(tm["tables"]) if any(denotes(g, rel, True) for g in gs)]
                ok = {k for k in wide if not any(n > k for n in narrow)}
                if len(ks) > 1:
                    return "nested-several-tables: %s carries %s of %s; only the last matching table applies" % (f, mine, tpath)
                if ks and ks[0] not in ok:
                    return ("nested-overmatch: %s (relative to %s: %r) received table %d of %s, globs %s; the last table whose globs match is %s (%s)"
                            % (f, d or ".", rel, ks[0], tpath, tm["tables"][ks[0]], sorted(ok) or "none", where))
                if not ks and narrow:
                    return ("nested-undermatch: %s (relative to %s: %r) is matched by table %d of %s, globs %s, and received nothing from it (%s)"
                            % (f, d or ".", rel, narrow[-1], tpath, tm["tables"][narrow[-1]], where))
            known = {(tm["dir"] + "/" if tm["dir"] else "") + "REUSE.toml" for tm in case["tomls"]}
            stray = [x for x in listed if x[0] not in known]
            if stray:
                return "nested-stray-source: %s lists %s" % (f, stray)
        return None

    def nontrivial(self, case, impl_out):
        if impl_out.startswith("EXC"):
            return None
        got = json.loads(impl_out)
        deep = {(tm["dir"] + "/REUSE.toml") for tm in case["tomls"] if tm["dir"]}
        return impl_out if any(src in deep for items in got.values() for src, v in items) else None

    def show(self, case):
        return {"files": self.tree(case), "invocation": "lint --json with an absolute --root from another directory" if case["abs"] else "lint --json in the root"}


PROPERTY = Property(
    pid="C05",
    streams=[GlobStream(), ItemStream(), NestedStream()],
    assumptions=[
        "CPython re is modelled for the emitted fragment (literal, [^/]*, .*, (?:.*/)?, full match) by Py.Re.bt, whose soundness/completeness w.r.t. the denotational language is proved; the tie to CPython's engine is the exhaustive differential",
        "a lone final backslash in a glob has no meaning in the written language (wfGlob); the code ignores it — excluded from the oracle, still compared model vs code",
    ],
)
