"""C05 — REUSE.toml path globs match exactly the language the specification defines."""
import itertools
import json
import os
from functools import lru_cache

from core import Property, Stream, enc, enc_list


def words(alpha, maxlen):
    for n in range(maxlen + 1):
        for t in itertools.product(alpha, repeat=n):
            yield "".join(t)


def trailing_backslash(g: str) -> bool:
    i = 0
    while i < len(g):
        if g[i] == "\\":
            if i + 1 >= len(g):
                return True
            i += 2
        else:
            i += 1
    return False


def denotes(g: str, p: str, wide: bool) -> bool:
    """Property text as a memoised recursion (independent of model and code)."""

    @lru_cache(maxsize=None)
    def rec(i: int, j: int) -> bool:
        if i == len(g):
            return j == len(p)
        c = g[i]
        if c == "\\":
            if i + 1 >= len(g):
                return False  # undefined: excluded by the caller
            return j < len(p) and p[j] == g[i + 1] and rec(i + 2, j + 1)
        if c == "*":
            n = 1
            while i + n < len(g) and g[i + n] == "*":
                n += 1
            if n == 1:
                k = j
                while True:
                    if rec(i + 1, k):
                        return True
                    if k < len(p) and p[k] != "/":
                        k += 1
                    else:
                        return False
            for k in range(j, len(p) + 1):
                if rec(i + n, k):
                    return True
            if wide and i + n < len(g) and g[i + n] == "/":
                return rec(i + n + 1, j)
            return False
        return j < len(p) and p[j] == c and rec(i + 1, j + 1)

    return rec(0, 0)


def impl_row(globs, paths) -> str:
    from reuse.global_licensing import AnnotationsItem

    item = AnnotationsItem(paths=list(globs))
    return "".join("1" if item.matches(p) else "0" for p in paths)


class GlobStream(Stream):
    name = "glob"
    exhaustive = True
    rule = ("every glob of length <=N over {a . / * \\} against every path of length <=M over the same alphabet "
            "(quick N=M=4: 781x781 pairs; thorough N=M=5: 3906x3906), one row per glob; plus a second alphabet "
            "{a / * \\ newline ? [ + ( $ | ^ . } at N=3, M=3; non-trivial = distinct (glob, row) with at least one match and one non-match")
    A1 = "a./*\\"
    A2 = "a/*\\\n?[+($|^."

    def cases(self, tier, rng):
        n = 5 if tier == "thorough" else 4
        paths = list(words(self.A1, n))
        for g in words(self.A1, n):
            yield {"g": g, "P": "A1:%d" % n}
        m = 3
        for g in words(self.A2, m):
            yield {"g": g, "P": "A2:%d" % m}
        # corpus of the concrete points the pinned suite never visits
        for g in ["\\*.py", "foo\\*", "*\\*", "*\\a", "**/foo", "a/**/b", "**", "a", "***", "**/*", "*/**", "a**b", "\\\\*", "\\\\\\*", "**/"]:
            yield {"g": g, "P": "corpus"}

    _paths_cache = {}

    def paths(self, key):
        if key not in self._paths_cache:
            if key == "corpus":
                self._paths_cache[key] = ["*.py", "*foo.py", "foo*bar", "foo*", "a*", "*a", "a", "barfoo", "foo", "x/foo", "a/xb", "a/b",
                                          "a/x/b", "a\nb", "a\n", "", "/", "\\", "\\*", "\\a", "*", "**", "a/", "/a", "axb", "ab", "\\\\x"]
            else:
                a, n = key.split(":")
                self._paths_cache[key] = list(words(self.A1 if a == "A1" else self.A2, int(n)))
        return self._paths_cache[key]

    def impl(self, case):
        return impl_row([case["g"]], self.paths(case["P"]))

    def model_lines(self, case):
        return ["globrow\t%s\t%s" % (enc(case["g"]), self._enc_paths(case["P"]))]

    _enc_cache = {}

    def _enc_paths(self, key):
        if key not in self._enc_cache:
            self._enc_cache[key] = enc_list(self.paths(key))
        return self._enc_cache[key]

    def oracle(self, case, impl_out):
        g = case["g"]
        if impl_out.startswith("EXC"):
            return "glob-crash: %s" % impl_out
        if trailing_backslash(g):
            return None  # the written language gives a lone final backslash no meaning
        for p, bit in zip(self.paths(case["P"]), impl_out):
            m = bit == "1"
            if m and not denotes(g, p, True):
                return "glob-overmatch: %r matches %r, outside the widest reading" % (g, p)
            if not m and denotes(g, p, False):
                return "glob-undermatch: %r misses %r, inside the narrowest reading" % (g, p)
        return None

    def nontrivial(self, case, impl_out):
        return (case["g"], impl_out) if ("1" in impl_out and "0" in impl_out) else None


class ItemStream(Stream):
    name = "item"
    rule = ("random annotation items with 1-4 globs of length <=24 from a path-like grammar against 60 random paths "
            "derived from the globs (expansions and near misses); non-trivial = row with a match and a non-match")

    def cases(self, tier, rng):
        n = 4000 if tier == "thorough" else 600
        for _ in range(n):
            gs = [self.rand_glob(rng) for _ in range(rng.randint(1, 4))]
            ps = []
            for _ in range(60):
                ps.append(self.expand(rng.choice(gs), rng))
            yield {"gs": gs, "ps": ps}

    PIECES = ["a", "b", "src", ".py", ".", "/", "/", "*", "*", "**", "**/", "\\*", "\\\\", "\\a", "-", "_x", "é", "***", " "]

    def rand_glob(self, rng):
        return "".join(rng.choice(self.PIECES) for _ in range(rng.randint(1, 8)))

    def expand(self, g, rng):
        out = []
        i = 0
        while i < len(g):
            c = g[i]
            if c == "\\" and i + 1 < len(g):
                out.append(g[i + 1] if rng.random() < 0.9 else "\\" + g[i + 1])
                i += 2
            elif c == "*":
                n = 1
                while i + n < len(g) and g[i + n] == "*":
                    n += 1
                r = rng.random()
                if n == 1:
                    out.append(rng.choice(["", "a", "foo", "x.y", "a/b" if r < 0.15 else "q"]))
                else:
                    out.append(rng.choice(["", "a", "a/b", "x/y/z", "/"]))
                    if i + n < len(g) and g[i + n] == "/" and rng.random() < 0.4:
                        out.pop()
                        i += 1
                i += n
            else:
                out.append(c if rng.random() < 0.95 else "z")
                i += 1
        return "".join(out)

    def impl(self, case):
        return impl_row(case["gs"], case["ps"])

    def model_lines(self, case):
        return ["itemrow\t%s\t%s" % (enc_list(case["gs"]), enc_list(case["ps"]))]

    def oracle(self, case, impl_out):
        if impl_out.startswith("EXC"):
            return "glob-crash: %s" % impl_out
        gs = case["gs"]
        if any(trailing_backslash(g) for g in gs):
            return None
        for p, bit in zip(case["ps"], impl_out):
            m = bit == "1"
            if m and not any(denotes(g, p, True) for g in gs):
                return "item-overmatch: %r matches %r, outside the widest reading of every glob" % (gs, p)
            if not m and any(denotes(g, p, False) for g in gs):
                return "item-undermatch: %r misses %r" % (gs, p)
        return None

    def nontrivial(self, case, impl_out):
        return (tuple(case["gs"]), impl_out) if ("1" in impl_out and "0" in impl_out) else None



# --------------------------------------------------------------------------
# "every other character matches only itself", beyond ASCII: spellings that a Unicode normalisation form, a compatibility
# mapping or a case mapping would identify are different characters to the written language


# words on which NFC / NFD / NFKC / NFKD / casefold / lower / upper act (precomposed and decomposed accents, singleton
# decompositions, Hangul, combining marks in two orders, composition exclusions, ligatures, full-width forms, special casing,
# letters outside the BMP, full-width glob metacharacters)
UNI_WORDS = [
    "é", "é", "résumé", "ÉCOLE", "Å", "Å", "Å", "Ω", "Ω", "K", "K", "ſ", "s",
    "ß", "ss", "ẞ", "straße", "ﬁ", "fi", "ﬃx", "Ａ", "ｆｕｌｌ", "A", "가", "가",
    "각", "한글", "ñ", "ö", "ö", "İ", "ı", "i̇", "ǆ", "ǅ", "µ", "μ",
    "क़", "क़", "ḍ̇", "ḍ̇", "ḍ̇", "²", "①", "Ⅳ", "ℌ", "\U0001d400",
    "σ", "ς", "Σ", "ẛ̣", "ΐ", "ᾳ", "ŉ", "＊", "a＊", "＼", "／", "℀",
    "Ångström", "Ǖ", "ば", "ば", "ཱི", " ", " ", "ṩ", "⫝̸", "\U0001f1e9\U0001f1ea",
    "لا", "ﻻ", "΅", "ẚ", "\U00010400", "\U00010428",
]


def uni_variants(w):
    """the spellings some normalisation form or case mapping identifies with `w` (used by the generators only: the oracle
    compares code points)"""
    import unicodedata
    out = [w]
    for v in list(out):
        out += [unicodedata.normalize(f, v) for f in ("NFC", "NFD", "NFKC", "NFKD")]
    out += [w.casefold(), w.lower(), w.upper(), w.swapcase()]
    out += [unicodedata.normalize(f, v) for v in out[5:9] for f in ("NFC", "NFD")]
    seen, res = set(), []
    for v in out:
        if v and v not in seen:
            seen.add(v)
            res.append(v)
    return res


_UNI_POOL = []


def uni_pool():
    """every code point (outside controls, surrogates, private use) that some normalisation form or case mapping changes"""
    import unicodedata
    if not _UNI_POOL:
        for cp in range(0xa0, 0x30000):
            c = chr(cp)
            cat = unicodedata.category(c)
            if cat in ("Cc", "Cs", "Co", "Cn", "Zl", "Zp"):
                continue
            if unicodedata.decomposition(c) or c.lower() != c or c.upper() != c or c.casefold() != c:
                _UNI_POOL.append(c)
    return _UNI_POOL


def rand_uni_word(rng):
    r = rng.random()
    if r < 0.45:
        return rng.choice(UNI_WORDS)
    c = rng.choice(uni_pool())
    if r < 0.65:
        return c
    return rng.choice(["x", "a", "e", "K", "\u00e9"]) + c if r < 0.8 else c + rng.choice(["y", "\u0301", "\u0323", "s", c])


class UnicodeStream(Stream):
    name = "unicode"
    rule = ("globs and paths beyond ASCII: a word W (75 fixed ones: precomposed / decomposed accents, singleton decompositions such as "
            "U+212B / U+2126 / U+212A, Hangul syllables and jamo, combining marks in two orders, composition exclusions, ligatures, "
            "full-width letters and full-width `*` `\\` `/`, special casing such as U+00DF / U+0130 / U+017F / final sigma, letters outside "
            "the BMP; and random ones built around any code point below U+30000 that NFC, NFD, NFKC, NFKD, casefold, lower or upper "
            "changes) in every spelling V(W) those mappings produce; the glob spells W in one of them inside 12 templates (literal, with a "
            "directory, after `*/` `**/`, before `*` `/**`, between stars, escaped with a backslash, two globs in one item), the paths "
            "spell it in every one of them (all combinations of precomposed / decomposed / compatibility / case spelling in glob and path): "
            "AnnotationsItem.matches vs the model (code points) vs the property text read on code points; all W x spellings x templates "
            "for the fixed words, then random ones; non-trivial = row with a match and a non-match")
    # (glob template(s), path templates); {g} = the glob's spelling, {p} = the path's spelling
    TEMPLATES = [
        (["{g}"], ["{p}"]),
        (["docs/{g}.txt"], ["docs/{p}.txt", "docs/{p}"]),
        (["{g}/f.c"], ["{p}/f.c"]),
        (["*/{g}"], ["a/{p}", "{p}", "{p}/{p}"]),
        (["**/{g}"], ["{p}", "a/{p}", "a/b/{p}"]),
        (["{g}*"], ["{p}", "{p}x", "{p}/x"]),
        (["*{g}"], ["{p}", "x{p}"]),
        (["{g}/**"], ["{p}/a", "{p}/a/b", "{p}"]),
        (["src/*{g}*.c"], ["src/{p}.c", "src/a{p}b.c"]),
        (["\\{g}"], ["{p}"]),
        (["x\\{g}y"], ["x{p}y"]),
        (["{g}", "lib/{g2}"], ["{p}", "lib/{p}"]),
    ]

    def _case(self, vs, gi, ti, g2i=0):
        gts, pts = self.TEMPLATES[ti]
        gs = [t.replace("{g2}", vs[g2i]).replace("{g}", vs[gi]) for t in gts]
        ps = []
        for v in vs:
            for t in pts:
                q = t.replace("{p}", v)
                if q not in ps:
                    ps.append(q)
        return {"gs": gs, "ps": ps}

    def cases(self, tier, rng):
        for w in UNI_WORDS:
            vs = uni_variants(w)
            for gi in range(len(vs)):
                for ti in range(len(self.TEMPLATES)):
                    if tier == "thorough" or (gi + ti) % 3 == 0 or ti == 0:
                        yield self._case(vs, gi, ti, (gi + 1) % len(vs))
        for _ in range(12000 if tier == "thorough" else 500):
            vs = uni_variants(rand_uni_word(rng))
            yield self._case(vs, rng.randrange(len(vs)), rng.randrange(len(self.TEMPLATES)), rng.randrange(len(vs)))

    def impl(self, case):
        return impl_row(case["gs"], case["ps"])

    def model_lines(self, case):
        return ["itemrow\t%s\t%s" % (enc_list(case["gs"]), enc_list(case["ps"]))]

    def oracle(self, case, impl_out):
        if impl_out.startswith("EXC"):
            return "unicode-glob-crash: %s" % impl_out
        gs = case["gs"]
        if any(trailing_backslash(g) for g in gs):
            return None
        for p, bit in zip(case["ps"], impl_out):
            m = bit == "1"
            if m and not any(denotes(g, p, True) for g in gs):
                return ("unicode-overmatch: %s matches the path %s (code points %s vs %s): every character other than * and \\ matches only itself"
                        % (ascii(gs), ascii(p), [enc(g) for g in gs], enc(p)))
            if not m and any(denotes(g, p, False) for g in gs):
                return "unicode-undermatch: %s misses the path %s" % (ascii(gs), ascii(p))
        return None

    def nontrivial(self, case, impl_out):
        return (tuple(case["gs"]), impl_out) if ("1" in impl_out and "0" in impl_out) else None

    def show(self, case):
        return {"globs": [ascii(g) for g in case["gs"]], "paths": [ascii(p) for p in case["ps"]]}

# --------------------------------------------------------------------------
# the property's last clause on real projects: "... matches the file's whole path *relative to that REUSE.toml*"


def _ancestors(p):
    parts = p.split("/")[:-1]
    return ["/".join(parts[:k]) for k in range(len(parts) + 1)]


def glob_escape(p):
    return p.replace("\\", "\\\\").replace("*", "\\*")


class NestedStream(Stream):
    """Projects with several REUSE.toml files.  A table of the REUSE.toml in directory D applies to a file iff the file lies below D
    (directory by directory, not character by character) and one of the table's globs matches the path relative to D."""
    name = "nested"
    rule = ("generated projects with a REUSE.toml in the root (p=0.6), in a directory D, in D/inner (p=0.45) and in a sibling of D (p=0.25); "
            "D from 14 names (plain, with regular-expression / glob metacharacters: `a.b`, `x+y`, `lib[1]`, `v(1)`, `d$`, `q?`, `{n}`, `w|z`, "
            "`pre^`, with a blank, non-ASCII), at top level or below `pkg/`; files in D, in D/inner, and in siblings whose names begin "
            "with D's name (D-extra/, Ds/, D + `rary.c`, D/inner-utils/, the name with `.` replaced by `x`) or are a beginning of it; every "
            "table has 1-2 globs from: `**`, `**/*.c`, `**/*.h`, `**/f.c`, `*`, `*.c`, `inner/**`, a literal file below D, and the "
            "remainder a sibling's path would leave after cutting off D's name as a string (`-extra/**`, `s/h.c`, `rary.c`); all tables "
            "`aggregate` with an own copyright marker; the real `reuse lint --json` run in the root and (every third case) with an absolute "
            "--root from elsewhere; oracle: per file and REUSE.toml, the marker listed for the file must be that of the last matching "
            "table (narrowest / widest reading of `**/` as a sandwich) when the file is below the REUSE.toml's directory, and none "
            "otherwise; no model (oracle only); non-trivial = distinct projects in which a nested REUSE.toml applies to some file")
    BASES = ["lib", "core", "a.b", "x+y", "lib[1]", "v(1)", "d$", "q?", "{n}", "w|z", "pre^", "my lib", "bibliothèque", "L"]

    def cases(self, tier, rng):
        for _ in range(1500 if tier == "thorough" else 110):
            yield self.gen(rng)

    def gen(self, rng):
        base = rng.choice(self.BASES)
        up = rng.choice(["", "", "pkg/"])
        D = up + base
        sibs = [D + "-extra/f.c", D + "s/h.c", D + "rary.c", D + "/inner-utils/e.h", D + "/innermost.c", D + ".c"]
        if "." in base:
            sibs.append(up + base.replace(".", "x") + "/f.c")
        if len(base) > 1:
            sibs.append(up + base[:-1] + "/p.c")
            sibs.append(up + base[:-1])
        inside = [D + "/f.c", D + "/g.h", D + "/inner/e.h", D + "/inner/k.c", D + "/inner/deep/f.c"]
        files = ["top.c"] + rng.sample(inside, rng.randint(2, len(inside))) + rng.sample(sibs, rng.randint(2, min(5, len(sibs))))
        if up:
            files.append("pkg/other.c")
        # a file and a directory cannot share a name
        files = [f for f in files if not any(g.startswith(f + "/") for g in files)]
        tdirs = [D]
        if rng.random() < 0.6:
            tdirs.insert(0, "")
        if rng.random() < 0.45 and any(f.startswith(D + "/inner/") for f in files):
            tdirs.append(D + "/inner")
        sd = [os.path.dirname(f) for f in files if f in sibs and "/" in f and not os.path.dirname(f).startswith(D + "/")
              and os.path.dirname(f) not in ("pkg", D)]
        if sd and rng.random() < 0.25:
            tdirs.append(rng.choice(sd))
        tomls = []
        for d in tdirs:
            below = [f[len(d) + 1:] if d else f for f in files if d in _ancestors(f)]
            # what cutting off d's name as a *string* would leave of the paths next to it
            cut = [f[len(d):].lstrip("/") for f in files if d and f.startswith(d) and d not in _ancestors(f) and f != d]
            tables = []
            for _ in range(rng.choice([1, 1, 2, 3])):
                gs = []
                for _ in range(rng.choice([1, 1, 2])):
                    r = rng.random()
                    if r < 0.3:
                        gs.append("**")
                    elif r < 0.55:
                        gs.append(rng.choice(["**/*.c", "**/*.h", "**/f.c", "**/e.h", "**/*"]))
                    elif r < 0.7:
                        gs.append(rng.choice(["*", "*.c", "*.h", "inner/**", "inner/*", "*/*.c"]))
                    elif r < 0.85 and below:
                        gs.append(glob_escape(rng.choice(below)))
                    elif cut:
                        c = rng.choice(cut)
                        gs.append(glob_escape(c) if rng.random() < 0.5 or "/" not in c else glob_escape(c.split("/")[0]) + "/**")
                    else:
                        gs.append("nomatch/**")
                tables.append(gs)
            tomls.append({"dir": d, "tables": tables})
        return {"files": sorted(set(files)), "tomls": tomls, "abs": rng.random() < 0.34}

    @staticmethod
    def marker(t, k):
        return "2000 Table %d of REUSE.toml %d" % (k, t)

    def tree(self, case):
        out = {}
        for f in case["files"]:
            out[f] = "int x;\n"
        for t, tm in enumerate(case["tomls"]):
            parts = ["version = 1\n"]
            for k, gs in enumerate(tm["tables"]):
                parts.append("\n[[annotations]]\npath = [%s]\nprecedence = \"aggregate\"\nSPDX-FileCopyrightText = \"%s\"\nSPDX-License-Identifier = \"MIT\"\n"
                             % (", ".join(json.dumps(g, ensure_ascii=False) for g in gs), self.marker(t, k)))
            out[(tm["dir"] + "/" if tm["dir"] else "") + "REUSE.toml"] = "".join(parts)
        out["LICENSES/MIT.txt"] = "text\n"
        return out

    def impl(self, case):
        import cli
        with cli.scratch("rv-c05n-") as base:
            root = os.path.join(base, "proj")
            other = os.path.join(base, "elsewhere")
            os.makedirs(root)
            os.makedirs(other)
            cli.write_tree(root, self.tree(case))
            rr = os.path.realpath(root)
            if case["abs"]:
                code, out, exc = cli.run_cli(["--no-multiprocessing", "--root", root, "lint", "--json"], other)
                cwd = other
            else:
                code, out, exc = cli.run_cli(["--no-multiprocessing", "lint", "--json"], root)
                cwd = root
            if exc is not None:
                return "EXC:%s:%s" % (type(exc).__name__, str(exc)[:100])
            try:
                rep, _ = json.JSONDecoder().raw_decode(out[out.index("{"):])
            except Exception:
                return "EXC:output:%s" % out[:100]

            def norm(s):
                for b in (cwd, rr):
                    q = os.path.realpath(os.path.join(b, s))
                    if (q == rr or q.startswith(rr + os.sep)) and os.path.lexists(q):
                        return os.path.relpath(q, rr)
                return "RAW:" + s
            res = {}
            for f in rep["files"]:
                res[norm(f["path"])] = sorted([norm(c["source"]) if c.get("source_type") == "reuse-toml" else str(c.get("source_type")), c["value"]]
                                              for c in f["copyrights"])
            return json.dumps(res, sort_keys=True, ensure_ascii=False)

    def oracle(self, case, impl_out):
        if impl_out.startswith("EXC"):
            return "nested-crash: " + impl_out
        got = json.loads(impl_out)
        where = "--root <absolute> from another directory" if case["abs"] else "run in the root"
        for f in case["files"]:
            if f not in got:
                return "nested-file-missing: %s has no entry in files[] (%s)" % (f, where)
            listed = got[f]
            for t, tm in enumerate(case["tomls"]):
                d = tm["dir"]
                tpath = (d + "/" if d else "") + "REUSE.toml"
                mine = [v for src, v in listed if src == tpath]
                ks = [k for k in range(len(tm["tables"])) if self.marker(t, k) in mine]
                if len(ks) != len(mine):
                    return "nested-foreign-value: %s: items with source %s that no table of it states: %s" % (f, tpath, mine)
                if d not in _ancestors(f):
                    if mine:
                        return ("nested-overreach: %s received the annotation %r of %s although it does not lie below %r (%s); globs %s"
                                % (f, mine, tpath, d + "/", where, [tm["tables"][k] for k in ks]))
                    continue
                rel = f[len(d) + 1:] if d else f
                narrow = [k for k, gs in enumerate(tm["tables"]) if any(denotes(g, rel, False) for g in gs)]
                wide = [k for k, gs in enumerate(tm["tables"]) if any(denotes(g, rel, True) for g in gs)]
                ok = {k for k in wide if not any(n > k for n in narrow)}
                if len(ks) > 1:
                    return "nested-several-tables: %s carries %s of %s; only the last matching table applies" % (f, mine, tpath)
                if ks and ks[0] not in ok:
                    return ("nested-overmatch: %s (relative to %s: %r) received table %d of %s, globs %s; the last table whose globs match is %s (%s)"
                            % (f, d or ".", rel, ks[0], tpath, tm["tables"][ks[0]], sorted(ok) or "none", where))
                if not ks and narrow:
                    return ("nested-undermatch: %s (relative to %s: %r) is matched by table %d of %s, globs %s, and received nothing from it (%s)"
                            % (f, d or ".", rel, narrow[-1], tpath, tm["tables"][narrow[-1]], where))
            known = {(tm["dir"] + "/" if tm["dir"] else "") + "REUSE.toml" for tm in case["tomls"]}
            stray = [x for x in listed if x[0] not in known]
            if stray:
                return "nested-stray-source: %s lists %s" % (f, stray)
        return None

    def nontrivial(self, case, impl_out):
        if impl_out.startswith("EXC"):
            return None
        got = json.loads(impl_out)
        deep = {(tm["dir"] + "/REUSE.toml") for tm in case["tomls"] if tm["dir"]}
        return impl_out if any(src in deep for items in got.values() for src, v in items) else None

    def show(self, case):
        return {"files": self.tree(case), "invocation": "lint --json with an absolute --root from another directory" if case["abs"] else "lint --json in the root"}


def file_safe(v):
    return v not in (".", "..") and "/" not in v and "\0" not in v and len(v.encode("utf-8")) < 200 and v.isprintable()


class UnicodeFilesStream(NestedStream):
    """Sibling files and directories whose names differ only in normalisation form, compatibility mapping or case (they coexist
    on tmpfs / ext4), of which a REUSE.toml names some: judged by NestedStream's oracle, which compares code points."""
    name = "unifiles"
    rule = ("generated projects in which a word W (as in `unicode`) is spelt in every variant V(W) as sibling file names `d/<v>.c`, "
            "sibling directory names `<v>/f.c`, `<v>/inner/g.c`, and (p=0.4) with a REUSE.toml inside one of the sibling directories; 1-3 "
            "tables in the root REUSE.toml with 1-2 globs from: one file spelt literally in one variant, `d/*<v>.c`, `**/<v>.c`, `<v>/**`, "
            "`<v>/*.c`, `*/<v>*`, `**/*.c`; all tables `aggregate` with an own marker; the real `reuse lint --json` run in the root or with "
            "an absolute --root; oracle as `nested` (per file and REUSE.toml the last table one of whose globs denotes the relative path, "
            "code point by code point; a REUSE.toml in directory <v> says nothing about files below a sibling spelt differently); no "
            "model; non-trivial = distinct projects in which some file of a sibling family is claimed and another is not")

    def cases(self, tier, rng):
        for _ in range(600 if tier == "thorough" else 45):
            yield self.gen(rng)

    def gen(self, rng):
        while True:
            vs = [v for v in uni_variants(rand_uni_word(rng)) if file_safe(v)]
            if len(vs) >= 2:
                break
        vs = vs[:5]
        files = ["top.c"]
        kind = rng.choice(["files", "dirs", "both"])
        if kind in ("files", "both"):
            files += ["d/%s.c" % v for v in vs]
        if kind in ("dirs", "both"):
            for v in vs:
                files += [v + "/f.c"] + ([v + "/inner/g.c"] if rng.random() < 0.5 else [])
        fam = [f for f in files if f != "top.c"]

        def table_globs(below, names):
            gs = []
            for _ in range(rng.choice([1, 1, 2])):
                v = glob_escape(rng.choice(names))
                r = rng.random()
                if r < 0.35 and below:
                    gs.append(glob_escape(rng.choice(below)))
                elif r < 0.45:
                    gs.append("d/*" + v + ".c")
                elif r < 0.55:
                    gs.append("**/" + v + ".c")
                elif r < 0.7:
                    gs.append(v + "/**")
                elif r < 0.8:
                    gs.append(v + "/*.c")
                elif r < 0.9:
                    gs.append("*/" + v + "*")
                else:
                    gs.append("**/*.c")
            return gs
        tomls = [{"dir": "", "tables": [table_globs(fam, vs) for _ in range(rng.choice([1, 2, 3]))]}]
        if kind != "files" and rng.random() < 0.4:
            d = rng.choice(vs)
            tomls.append({"dir": d, "tables": [[rng.choice(["**", "*.c", "f.c", "inner/**"])]]})
        return {"files": sorted(set(files)), "tomls": tomls, "abs": rng.random() < 0.34, "family": fam}

    def nontrivial(self, case, impl_out):
        if impl_out.startswith("EXC"):
            return None
        got = json.loads(impl_out)
        fam = case.get("family", [])
        claimed = [f for f in fam if got.get(f)]
        return impl_out if claimed and len(claimed) < len(fam) else None

    def show(self, case):
        out = NestedStream.show(self, case)
        return {"files": {ascii(k): v for k, v in out["files"].items()}, "invocation": out["invocation"]}


import c05s12     # noqa: E402  (needs the classes above)

PROPERTY = Property(
    pid="C05",
    streams=[GlobStream(), ItemStream(), NestedStream(), UnicodeStream(), UnicodeFilesStream()] + c05s12.STREAMS,
    assumptions=[
        "CPython re is modelled for the emitted fragment (literal, [^/]*, .*, (?:.*/)?, full match) by Py.Re.bt, whose soundness/completeness w.r.t. the denotational language is proved; the tie to CPython's engine is the exhaustive differential",
        "a lone final backslash in a glob has no meaning in the written language (wfGlob); the code ignores it — excluded from the oracle, still compared model vs code",
        "a 'character' of the written language is a Unicode code point (as in the model's List Char and in Python's str): canonically equivalent, compatibility-equivalent and case-variant spellings are different characters; file names are compared as the file system hands them out (streams unicode, unifiles run on tmpfs, which keeps every spelling apart)",
    ],
)
