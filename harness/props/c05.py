"""C05 — REUSE.toml path globs match exactly the language the specification defines."""
import itertools
from functools import lru_cache

from core import Property, Stream, enc, enc_list


def words(alpha, maxlen):
    for n in range(maxlen + 1):
        for t in itertools.product(alpha, repeat=n):
            yield "".join(t)


def trailing_backslash(g: str) -> bool:
    i = 0
    while i < len(g):
        if g[i] == "\\":
            if i + 1 >= len(g):
                return True
            i += 2
        else:
            i += 1
    return False


def denotes(g: str, p: str, wide: bool) -> bool:
    """Property text as a memoised recursion (independent of model and code)."""

    @lru_cache(maxsize=None)
    def rec(i: int, j: int) -> bool:
        if i == len(g):
            return j == len(p)
        c = g[i]
        if c == "\\":
            if i + 1 >= len(g):
                return False  # undefined: excluded by the caller
            return j < len(p) and p[j] == g[i + 1] and rec(i + 2, j + 1)
        if c == "*":
            n = 1
            while i + n < len(g) and g[i + n] == "*":
                n += 1
            if n == 1:
                k = j
                while True:
                    if rec(i + 1, k):
                        return True
                    if k < len(p) and p[k] != "/":
                        k += 1
                    else:
                        return False
            for k in range(j, len(p) + 1):
                if rec(i + n, k):
                    return True
            if wide and i + n < len(g) and g[i + n] == "/":
                return rec(i + n + 1, j)
            return False
        return j < len(p) and p[j] == c and rec(i + 1, j + 1)

    return rec(0, 0)


def impl_row(globs, paths) -> str:
    from reuse.global_licensing import AnnotationsItem

    item = AnnotationsItem(paths=list(globs))
    return "".join("1" if item.matches(p) else "0" for p in paths)


class GlobStream(Stream):
    name = "glob"
    exhaustive = True
    rule = ("every glob of length <=N over {a . / * \\} against every path of length <=M over the same alphabet "
            "(quick N=M=4: 781x781 pairs; thorough N=M=5: 3906x3906), one row per glob; plus a second alphabet "
            "{a / * \\ newline ? [ + ( $ | ^ . } at N=3, M=3; non-trivial = distinct (glob, row) with at least one match and one non-match")
    A1 = "a./*\\"
    A2 = "a/*\\\n?[+($|^."

    def cases(self, tier, rng):
        n = 5 if tier == "thorough" else 4
        paths = list(words(self.A1, n))
        for g in words(self.A1, n):
            yield {"g": g, "P": "A1:%d" % n}
        m = 3
        for g in words(self.A2, m):
            yield {"g": g, "P": "A2:%d" % m}
        # corpus of the concrete points the pinned suite never visits
        for g in ["\\*.py", "foo\\*", "*\\*", "*\\a", "**/foo", "a/**/b", "**", "a", "***", "**/*", "*/**", "a**b", "\\\\*", "\\\\\\*", "**/"]:
            yield {"g": g, "P": "corpus"}

    _paths_cache = {}

    def paths(self, key):
        if key not in self._paths_cache:
            if key == "corpus":
                self._paths_cache[key] = ["*.py", "*foo.py", "foo*bar", "foo*", "a*", "*a", "a", "barfoo", "foo", "x/foo", "a/xb", "a/b",
                                          "a/x/b", "a\nb", "a\n", "", "/", "\\", "\\*", "\\a", "*", "**", "a/", "/a", "axb", "ab", "\\\\x"]
            else:
                a, n = key.split(":")
                self._paths_cache[key] = list(words(self.A1 if a == "A1" else self.A2, int(n)))
        return self._paths_cache[key]

    def impl(self, case):
        return impl_row([case["g"]], self.paths(case["P"]))

    def model_lines(self, case):
        return ["globrow\t%s\t%s" % (enc(case["g"]), self._enc_paths(case["P"]))]

    _enc_cache = {}

    def _enc_paths(self, key):
        if key not in self._enc_cache:
            self._enc_cache[key] = enc_list(self.paths(key))
        return self._enc_cache[key]

    def oracle(self, case, impl_out):
        g = case["g"]
        if impl_out.startswith("EXC"):
            return "glob-crash: %s" % impl_out
        if trailing_backslash(g):
            return None  # the written language gives a lone final backslash no meaning
        for p, bit in zip(self.paths(case["P"]), impl_out):
            m = bit == "1"
            if m and not denotes(g, p, True):
                return "glob-overmatch: %r matches %r, outside the widest reading" % (g, p)
            if not m and denotes(g, p, False):
                return "glob-undermatch: %r misses %r, inside the narrowest reading" % (g, p)
        return None

    def nontrivial(self, case, impl_out):
        return (case["g"], impl_out) if ("1" in impl_out and "0" in impl_out) else None


class ItemStream(Stream):
    name = "item"
    rule = ("random annotation items with 1-4 globs of length <=24 from a path-like grammar against 60 random paths "
            "derived from the globs (expansions and near misses); non-trivial = row with a match and a non-match")

    def cases(self, tier, rng):
        n = 4000 if tier == "thorough" else 600
        for _ in range(n):
            gs = [self.rand_glob(rng) for _ in range(rng.randint(1, 4))]
            ps = []
            for _ in range(60):
                ps.append(self.expand(rng.choice(gs), rng))
            yield {"gs": gs, "ps": ps}

    PIECES = ["a", "b", "src", ".py", ".", "/", "/", "*", "*", "**", "**/", "\\*", "\\\\", "\\a", "-", "_x", "é", "***", " "]

    def rand_glob(self, rng):
        return "".join(rng.choice(self.PIECES) for _ in range(rng.randint(1, 8)))

    def expand(self, g, rng):
        out = []
        i = 0
        while i < len(g):
            c = g[i]
            if c == "\\" and i + 1 < len(g):
                out.append(g[i + 1] if rng.random() < 0.9 else "\\" + g[i + 1])
                i += 2
            elif c == "*":
                n = 1
                while i + n < len(g) and g[i + n] == "*":
                    n += 1
                r = rng.random()
                if n == 1:
                    out.append(rng.choice(["", "a", "foo", "x.y", "a/b" if r < 0.15 else "q"]))
                else:
                    out.append(rng.choice(["", "a", "a/b", "x/y/z", "/"]))
                    if i + n < len(g) and g[i + n] == "/" and rng.random() < 0.4:
                        out.pop()
                        i += 1
                i += n
            else:
                out.append(c if rng.random() < 0.95 else "z")
                i += 1
        return "".join(out)

    def impl(self, case):
        return impl_row(case["gs"], case["ps"])

    def model_lines(self, case):
        return ["itemrow\t%s\t%s" % (enc_list(case["gs"]), enc_list(case["ps"]))]

    def oracle(self, case, impl_out):
        if impl_out.startswith("EXC"):
            return "glob-crash: %s" % impl_out
        gs = case["gs"]
        if any(trailing_backslash(g) for g in gs):
            return None
        for p, bit in zip(case["ps"], impl_out):
            m = bit == "1"
            if m and not any(denotes(g, p, True) for g in gs):
                return "item-overmatch: %r matches %r, outside the widest reading of every glob" % (gs, p)
            if not m and any(denotes(g, p, False) for g in gs):
                return "item-undermatch: %r misses %r" % (gs, p)
        return None

    def nontrivial(self, case, impl_out):
        return (tuple(case["gs"]), impl_out) if ("1" in impl_out and "0" in impl_out) else None


PROPERTY = Property(
    pid="C05",
    streams=[GlobStream(), ItemStream()],
    assumptions=[
        "CPython re is modelled for the emitted fragment (literal, [^/]*, .*, (?:.*/)?, full match) by Py.Re.bt, whose soundness/completeness w.r.t. the denotational language is proved; the tie to CPython's engine is the exhaustive differential",
        "a lone final backslash in a glob has no meaning in the written language (wfGlob); the code ignores it — excluded from the oracle, still compared model vs code",
    ],
)
