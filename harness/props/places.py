"""Where a generated project lives.

The properties about `reuse lint` quantify over project *trees*: what the tool reports depends on what is below the project
root, not on how the directory that holds the project is called, nor on what lies next to it.  The streams therefore place
some of their projects in a directory with an unusual name — blanks, non-ASCII, shell and glob metacharacters (`[1]`, `*`,
`?`, `[!x]`, `{a,b}`), percent and hash signs, a leading dash — and put a *neighbour* next to it: a directory whose name the
project's name, read as a glob pattern, would match, holding material that would change the report if the tool looked at
it (a LICENSES/ directory with a text of its own, an unlicensed source file, a REUSE.toml that does not parse).

A case carries the name under the key "root" (absent: the scratch directory itself, as before).  The oracles never look
at it."""
import contextlib
import fnmatch
import os

import cli

ROOT_NAMES = [
    "proj", "my project", "projé 项目", "proj[1]", "p[ab]c", "[x]", "star*", "what?", "[!x]y", "br{a,b}", "per%cent", "hash#1",
    "semi;colon", "-dash", "quo'te", "amp&ersand", "dollar$HOME", "(paren)", "a[b", "c]d", "**", "x[[]y", "tilde~", "comma,dot.",
]


def glob_twin(name):
    """Another name that `name`, read as a glob pattern, matches (or None)."""
    out, i = [], 0
    while i < len(name):
        c = name[i]
        if c == "*":
            out.append("x")
        elif c == "?":
            out.append("q")
        elif c == "[":
            j = name.find("]", i + 2 if name[i + 1:i + 2] in ("!", "]") else i + 1)
            if j < 0:
                out.append(c)
            else:
                seq = name[i + 1:j]
                if seq.startswith("!"):
                    out.append(next(ch for ch in "zyxwv" if ch not in seq))
                else:
                    out.append(seq[0])
                i = j
        else:
            out.append(c)
        i += 1
    twin = "".join(out)
    if twin != name and fnmatch.fnmatchcase(twin, name):
        return twin
    return None


def choose(rng, rate=0.25):
    """the value of case["root"] for a new case, or None"""
    if rng.random() < rate:
        return rng.choice(ROOT_NAMES)
    return None


NEIGHBOUR = {
    "LICENSES/LicenseRef-neighbour.txt": "a licence text that belongs to another project\n",
    "LICENSES/sub/Zlib.txt": "zlib, next door\n",
    "stray.py": "print('no information here, and none of this project's business')\n",
    "REUSE.toml": "version = 1\n[[annotations]\npath = \n",
}


@contextlib.contextmanager
def project_dir(case, prefix="rv-"):
    """A fresh directory for the project of `case` (removed afterwards)."""
    with cli.scratch(prefix) as base:
        name = case.get("root") if isinstance(case, dict) else None
        if not name:
            yield base
            return
        root = os.path.join(base, name)
        os.makedirs(root)
        twin = glob_twin(name)
        for nb in [twin, name + "-next"]:
            if nb:
                cli.write_tree(os.path.join(base, nb), NEIGHBOUR)
        yield root
