"""C10, one more region of the input space: pre-commented templates (`NAME.commented.jinja2`) of every shape and for every style.

"Custom templates" are in the property's quantifier; so far the streams knew one pre-commented template (a C block).  A
pre-commented template writes the comment markers itself, and there are many ways to do that: one block around everything, one
inline comment per line, single-line comments with a commented separator line (`#`) — or with a truly *blank* line between the
copyright part and the licence part, as one writes it when the separator of the default template is copied without its marker;
two blocks, one per part.  With a blank line in it the header the tool writes consists of two comment blocks.

`precommented` — add_header_to_file run 5 times with template_is_commented=True: every style of the table x the template shapes the
                 style can express x bodies free of REUSE tags x requests with and without licences / contributors; oracle = the
                 property text (bytes after runs 2..5 = bytes after run 1; the requested notice stands once).

Known finding `c10-precommented-template-several-blocks`: when what the template renders is more than one comment block (a blank
line between two commented parts; one inline comment per line; two blocks one after the other), every re-run finds only the first
block, takes the information of that block for the whole old header and writes the header again in front of the rest: the file
grows by the other blocks on every run.  `classify` derives the key from the rendered text (`several_blocks`: two or more groups
of non-blank lines, or text behind the line that closes the first multi-line comment), not from the template's name.
"""
import io
import json
import os

from core import Stream
import cli
from annotcorr import all_styles, style_by_name
import c10 as base

RUNS = base.RUNS

FOR_C = "{% for c in copyright_lines %}\n"
FOR_N = "{% for c in contributor_lines %}\n"
FOR_E = "{% for e in spdx_expressions %}\n"
END = "{% endfor %}\n"


def lit(s):
    """`s` as literal text of a Jinja template: markers that look like Jinja delimiters (`{#`, `{{!--`) go through an expression"""
    if any(d in s for d in ("{{", "}}", "{%", "%}", "{#", "#}")):
        q = '"' if '"' not in s else "'"
        return "{{ " + q + s + q + " }}"
    return s


def shapes_for(st):
    """{shape: template text} — the ways a template can comment its own output in this style"""
    out = {}
    if st.SINGLE_LINE:
        m = lit(st.SINGLE_LINE) + st.INDENT_AFTER_SINGLE
        part_c = FOR_C + m + "{{ c }}\n" + END + FOR_N + m + "SPDX-FileContributor: {{ c }}\n" + END
        part_e = FOR_E + m + "SPDX-License-Identifier: {{ e }}\n" + END
        out["lines"] = part_c + lit(st.SINGLE_LINE) + "\n" + part_e
        out["lines-tight"] = part_c + part_e
        out["lines-gap"] = part_c + "\n" + part_e                       # a blank line that is not commented
        out["lines-text"] = m + "This file is part of X.\n" + lit(st.SINGLE_LINE) + "\n" + part_c + lit(st.SINGLE_LINE) + "\n" + part_e
        out["lines-gap-text"] = m + "This file is part of X.\n\n" + part_c + part_e
    if st.MULTI_LINE.start and st.MULTI_LINE.end:
        a, mid, z = lit(st.MULTI_LINE.start), lit(st.MULTI_LINE.middle), lit(st.MULTI_LINE.end)
        pre = (st.INDENT_BEFORE_MIDDLE + mid + st.INDENT_AFTER_MIDDLE) if mid else ""
        sep = (st.INDENT_BEFORE_MIDDLE + mid) if mid else ""
        body_c = FOR_C + pre + "{{ c }}\n" + END + FOR_N + pre + "SPDX-FileContributor: {{ c }}\n" + END
        body_e = FOR_E + pre + "SPDX-License-Identifier: {{ e }}\n" + END
        close = st.INDENT_BEFORE_END + z + "\n"
        out["block"] = a + "\n" + body_c + sep + "\n" + body_e + close
        out["block-tight"] = a + "\n" + body_c + body_e + close
        out["two-blocks"] = a + "\n" + body_c + close + "\n" + a + "\n" + body_e + close     # one block per part, a blank line between
        out["two-blocks-tight"] = a + "\n" + body_c + close + a + "\n" + body_e + close
        inl = lambda s: a + " " + s + " " + z + "\n"       # noqa: E731
        out["inline"] = FOR_C + inl("{{ c }}") + END + FOR_N + inl("SPDX-FileContributor: {{ c }}") + END + FOR_E + inl("SPDX-License-Identifier: {{ e }}") + END
        out["inline-gap"] = FOR_C + inl("{{ c }}") + END + "\n" + FOR_E + inl("SPDX-License-Identifier: {{ e }}") + END
    return out


def _template(text):
    from jinja2 import Environment
    return Environment(trim_blocks=True).from_string(text)


def rendered(case):
    return _template(case["tmpl_text"]).render(copyright_lines=sorted(case["cpr"]), contributor_lines=sorted(case["con"]),
                                               spdx_expressions=sorted(case["lic"])).strip("\n")


def groups(text):
    """number of groups of non-blank lines (a blank line between two of them separates two comment blocks)"""
    n, inside = 0, False
    for l in text.split("\n"):
        if l.strip():
            if not inside:
                n += 1
            inside = True
        else:
            inside = False
    return n


def several_blocks(st, text):
    """what the template rendered is more than one comment block: two groups of lines with a blank line between them, or text
    (a second comment) behind the line that closes the multi-line comment the text opens with"""
    if groups(text) > 1:
        return True
    a, z = st.MULTI_LINE.start, st.MULTI_LINE.end
    if a and z and text.startswith(a):
        lines = text.split("\n")
        for i, l in enumerate(lines):
            rest = l[len(a):] if i == 0 else l
            if z in rest:
                return any(x.strip() for x in lines[i + 1:])
    return False


def run_n(case, n=RUNS):
    from reuse import ReuseInfo, _LICENSING
    from reuse._annotate import add_header_to_file
    st = style_by_name(case["s"])
    outs = []
    with cli.scratch("rv-c10p-") as root:
        path = os.path.join(root, "f.txt")
        with open(path, "w", encoding="utf-8", newline="") as fp:
            fp.write(case["t"])
        for _ in range(n):
            info = ReuseInfo(spdx_expressions={_LICENSING.parse(x) for x in case["lic"]}, copyright_lines=set(case["cpr"]),
                             contributor_lines=set(case["con"]))
            out = io.StringIO()
            rc = add_header_to_file(path, info, _template(case["tmpl_text"]), True, style=st.SHORTHAND, force_multi=False,
                                    skip_existing=False, merge_copyrights=False, replace=True, out=out)
            if rc:
                outs.append("F:" + ("commentCreate" if "Could not create comment" in out.getvalue() else "missingInfo"))
            else:
                with open(path, "r", encoding="utf-8", newline="") as fp:
                    outs.append("W:" + fp.read())
    return outs


class PreCommentedStream(Stream):
    name = "precommented"
    rule = ("add_header_to_file run 5 times with a pre-commented template (template_is_commented): every style of the table x the shapes "
            "the style can express (single-line comments with a commented separator / without separator / with a truly blank line between "
            "the copyright and the licence part / with leading text; one multi-line block with and without separator line; two blocks, one "
            "per part, with and without a blank line between them; one inline comment per line, with and without a blank line) x bodies "
            "free of REUSE tags (empty, code, comment first, shebang, blank lines first) x requests (copyright + licence, + contributors, "
            "several of each, copyright only, licence only); oracle: bytes after runs 2..5 = bytes after run 1 and the requested notice "
            "stands exactly once (or every run fails alike); a template that renders more than one comment block is the known finding "
            "c10-precommented-template-several-blocks; oracle only; non-trivial = distinct (style, shape, outcome)")

    def cases(self, tier, rng):
        kinds = ["empty", "code", "comment-first", "shebang", "blank-first"]
        for st in all_styles():
            if st.__name__ in ("UncommentableCommentStyle", "EmptyCommentStyle"):
                continue
            for shape, text in sorted(shapes_for(st).items()):
                for kind in (kinds if tier == "thorough" else rng.sample(kinds, 2)):
                    infos = base.INFOS[:6] + base.INFOS[8:] if tier == "thorough" else [base.INFOS[0], rng.choice(base.INFOS[1:6] + base.INFOS[8:])]
                    for cpr, lic, con in infos:
                        yield {"s": st.__name__, "f": "10010", "shape": shape, "tmpl_text": text, "cpr": cpr, "lic": lic, "con": con,
                               "t": base.BODIES[kind](st), "kind": kind}

    def impl(self, case):
        return json.dumps(run_n(case))

    def oracle(self, case, impl_out):
        if impl_out.startswith("EXC"):
            return "crash: " + impl_out
        return base.judge_runs(json.loads(impl_out), case)

    def classify(self, case, failure):
        if failure.startswith(("rerun-changes-file", "header-count")) and several_blocks(style_by_name(case["s"]), rendered(case)):
            return "c10-precommented-template-several-blocks"
        return None

    def nontrivial(self, case, impl_out):
        if impl_out.startswith("EXC"):
            return None
        outs = json.loads(impl_out)
        return (case["s"], case["shape"], outs[0][:2], outs[0] == outs[-1])

    def show(self, case):
        return {k: case[k] for k in ("s", "shape", "tmpl_text", "cpr", "lic", "con", "t")}


STREAMS = [PreCommentedStream()]
