"""C10, two more regions of the input space.

`nearequal` / `nearequal-cli` — requests whose lines are *nearly* equal: two or three holders, contributors or licences that
             differ only in case (`de Vries` / `De Vries`, `ACME Corp` / `Acme Corp`, `MIT` / `mit`), only under case folding
             (`Strauß` / `Strauss`, `ﬁnch` / `finch`), only in accents, only in the e-mail address, only in the year, only in the
             holder.  Every run of the identical command happens in a fresh interpreter with another PYTHONHASHSEED (the order
             in which a set of strings is walked differs from process to process — that is what a user's second invocation is).
             Oracle: the bytes after runs 2..K equal the bytes after run 1.
`addtemplates` / `addtemplates-cli` — custom templates that *state something on their own account*: a fixed copyright notice, a
             fixed licence tag, a fixed contributor line or plain text, before / between / after the loops, uncommented and
             pre-commented; requests that do and do not already contain the fixed line.  Oracle: the bytes after runs 2..5 equal the
             bytes after run 1 and what was requested (and is not spelled out by the template itself) stands once.  A template the
             tool refuses on every run is fine: nothing is written, the case is counted as trivial, not as coverage.
"""
import io
import json
import os
import subprocess
import sys

from core import Stream, REPO
import cli
from annotcorr import style_by_name
import c10 as base

RUNS = base.RUNS

# --------------------------------------------------------------------------
# nearly equal lines, one interpreter (and hash seed) per run

CHILD = r'''
import io, json, os, sys, warnings
jobs = json.load(sys.stdin)
res = []
for j in jobs:
    try:
        if j["mode"] == "api":
            from reuse import ReuseInfo, _LICENSING
            from reuse._annotate import add_header_to_file
            info = ReuseInfo(spdx_expressions={_LICENSING.parse(x) for x in j["lic"]}, copyright_lines=set(j["cpr"]),
                             contributor_lines=set(j["con"]))
            rc = add_header_to_file(j["path"], info, None, False, j["style"], force_multi=j["multi"], merge_copyrights=j["merge"],
                                    out=io.StringIO())
            res.append("rc:%d" % rc)
        else:
            from click.testing import CliRunner
            from reuse.cli.main import main
            os.chdir(j["root"])
            with warnings.catch_warnings():
                warnings.simplefilter("ignore")
                r = CliRunner().invoke(main, j["argv"], catch_exceptions=True)
            if r.exception is not None and not isinstance(r.exception, SystemExit):
                res.append("exc:%s:%s" % (type(r.exception).__name__, str(r.exception)[:80]))
            else:
                res.append("rc:%d" % r.exit_code)
    except BaseException as e:
        res.append("exc:%s:%s" % (type(e).__name__, str(e)[:80]))
sys.stdout.write("\n" + json.dumps(res) + "\n")
'''

#: families of names a sort key that is not one-to-one would lump together: [(what, members)]
NAME_FAMILIES = [
    ("case", ["Jean-Luc de Vries", "Jean-Luc De Vries", "JEAN-LUC DE VRIES"]),
    ("case", ["ACME Corp", "Acme Corp", "acme corp"]),
    ("case", ["Ludwig van Beethoven <lvb@example.org>", "Ludwig Van Beethoven <lvb@example.org>"]),
    ("case", ["jane doe", "Jane Doe", "Jane DOE"]),
    ("casefold", ["Johann Strauß", "Johann Strauss", "JOHANN STRAUSS"]),
    ("casefold", ["ﬁnch labs", "finch labs"]),
    ("casefold", ["Σίσυφος ΑΣ", "σίσυφος ας", "Σίσυφος Ας"]),
    ("accent", ["José Álvarez", "Jose Alvarez", "José Alvarez"]),
    ("email", ["Jane Doe <jane@example.com>", "Jane Doe <jane@example.org>", "Jane Doe"]),
    ("first-word", ["Jane Doe", "Jane Roe", "Jane Poe"]),
    ("last-word", ["Alice Smith", "Bob Smith", "Carol Smith"]),
    ("length", ["abcd efgh", "efgh abcd", "dcba hgfe"]),
]
LICENCE_FAMILIES = [
    ("case", ["MIT", "mit"]),
    ("case", ["Apache-2.0", "apache-2.0", "APACHE-2.0"]),
    ("case", ["LicenseRef-Foo", "LicenseRef-foo", "LicenseRef-FOO"]),
    ("case", ["GPL-3.0-or-later", "gpl-3.0-or-later"]),
    ("prefix", ["GPL-2.0-only", "GPL-2.0-or-later", "GPL-2.0-only WITH Classpath-exception-2.0"]),
    ("operand-order", ["MIT OR ISC", "ISC OR MIT"]),
]
NE_NAMES = ["f.py", "f.c", "f.cpp", "f.html", "f.jl", "f.tex", "f.rst", "Makefile", "f.hs", "f.css", "f.ml", "f.bat", "f.j2", "f.el"]
NE_KINDS = ["empty", "code", "code-nofinal", "comment-first", "shebang", "crlf"]
PREFIXES = ["spdx", "spdx-c", "spdx-string", "spdx-string-c", "spdx-string-symbol", "spdx-symbol", "string", "string-c", "string-symbol", "symbol"]


def pick_family(rng, families, k=None):
    what, members = rng.choice(families)
    n = k or rng.choice([2, 2, 3])
    return what, rng.sample(members, min(n, len(members)))


def near_request(rng):
    """{holders, con, lic, how}: one to three sections of the header hold a family of nearly equal values"""
    sections = rng.choice([["cpr"], ["con"], ["lic"], ["cpr", "con"], ["con", "lic"], ["cpr", "lic"], ["cpr", "con", "lic"], ["con"], ["cpr"]])
    req = {"holders": ["Plain Holder"], "con": [], "lic": ["0BSD"]}
    how = []
    if "cpr" in sections:
        w, req["holders"] = pick_family(rng, NAME_FAMILIES)
        how.append("cpr:" + w)
    if "con" in sections:
        while True:
            # never a name that also stands (or is part of a name that stands) among the holders: every value is counted in the file
            w, req["con"] = pick_family(rng, NAME_FAMILIES)
            if not any(a in b or b in a for a in req["con"] for b in req["holders"]):
                break
        how.append("con:" + w)
        if rng.random() < 0.3:
            req["con"] = req["con"] + ["Zoe Other"]
    if "lic" in sections:
        w, req["lic"] = pick_family(rng, LICENCE_FAMILIES)
        how.append("lic:" + w)
    req["how"] = ",".join(how)
    return req


def snapshot_text(root):
    snap = cli.snapshot(root)
    return sorted((k, v[0], v[1].decode("utf-8", "replace") if isinstance(v[1], bytes) else v[1]) for k, v in snap.items())


def judge_snaps(snaps, probes):
    first = snaps[0]
    if first[0].startswith("exc"):
        return "crash: " + first[0]
    for i, s in enumerate(snaps[1:], 2):
        if s != first:
            return "rerun-changes-tree: run %d (another interpreter, same arguments) left %r, run 1 left %r" % (i, s, first)
    if first[0] == "rc:0":
        texts = "".join(v for k, kind, v in first[1] if kind == "file")
        for p in probes:
            if texts.count(p) != 1:
                return "header-count: %r stands %d times in the tree after %d runs" % (p, texts.count(p), len(snaps))
    return None


class _SeededRuns(Stream):
    """K runs of one command per case, run k of every case in one child interpreter started with the k-th hash seed"""
    mode = "api"

    def _key(self, case):
        return json.dumps(case, sort_keys=True, ensure_ascii=True)

    def job(self, case, root, run):
        raise NotImplementedError

    def files(self, case):
        return {case["name"]: case["t"]}

    def _run_batch(self, cases):
        cache = self.__dict__.setdefault("_cache", {})
        groups = {}
        for c in cases:
            groups.setdefault(tuple(c["seeds"]), []).append(c)
        for seeds, group in groups.items():
            with cli.scratch("rv-c10ne-") as top:
                roots = []
                for i, c in enumerate(group):
                    root = os.path.join(top, "%04d" % i)
                    os.mkdir(root)
                    cli.write_tree(root, self.files(c))
                    roots.append(root)
                snaps = [[] for _ in group]
                for run, seed in enumerate(seeds):
                    jobs = [self.job(c, root, run) for c, root in zip(group, roots)]
                    env = dict(os.environ, PYTHONHASHSEED=str(seed), PYTHONPATH=os.path.join(REPO, "src"), PYTHONDONTWRITEBYTECODE="1")
                    r = subprocess.run([sys.executable, "-c", CHILD], input=json.dumps(jobs), capture_output=True, text=True, env=env, cwd=top)
                    try:
                        res = json.loads(r.stdout.strip().splitlines()[-1])
                        assert len(res) == len(group)
                    except Exception:
                        res = ["exc:child:%s" % r.stderr[-160:]] * len(group)
                    for i, root in enumerate(roots):
                        snaps[i].append((res[i], snapshot_text(root)))
                for c, s in zip(group, snaps):
                    cache[self._key(c)] = json.dumps(s)

    def impl(self, case):
        cache = self.__dict__.setdefault("_cache", {})
        k = self._key(case)
        if k not in cache:
            pending = [c for c in getattr(self, "_pending", []) if self._key(c) not in cache]
            self._run_batch([case] + [c for c in pending if self._key(c) != k])
        return cache[k]

    def oracle(self, case, impl_out):
        if impl_out.startswith("EXC"):
            return "crash: " + impl_out
        snaps = [(s[0], [tuple(x) for x in s[1]]) for s in json.loads(impl_out)]
        return judge_snaps(snaps, case["probes"])

    def nontrivial(self, case, impl_out):
        if impl_out.startswith("EXC") or json.loads(impl_out)[0][0] != "rc:0":
            return None
        return (case["name"], case["how"], case.get("opts", ""))


def seeds_for(rng, tier):
    k = 6 if tier == "thorough" else 4
    return rng.sample(range(1, 5000), k)


class NearEqualStream(_SeededRuns):
    name = "nearequal"
    rule = ("add_header_to_file run 4 (quick) / 6 (thorough) times with the same request, every run in a fresh interpreter under another "
            "PYTHONHASHSEED (the request's sets are built in rotated order from run to run): one to three sections of the header hold two or "
            "three values that differ only in case, only under case folding (ß / ss, ﬁ / fi, final sigma), only in accents, only in the e-mail "
            "address, only in the first / last word, or are permutations of one another; licences differing in case (MIT / mit, LicenseRef-Foo / "
            "-foo), sharing a prefix, or with swapped operands; 14 file types x tag-free bodies x forced multi-line x --merge-copyrights; "
            "oracle: bytes after runs 2..K = bytes after run 1, every requested value stands once; non-trivial = distinct (file type, "
            "sections and kinds of near-equality, options) written successfully")

    def cases(self, tier, rng):
        from reuse.comment import get_comment_style
        from pathlib import Path
        n = 160 if tier == "thorough" else 36
        seeds = seeds_for(rng, tier)
        out = []
        for i in range(n):
            req = near_request(rng)
            name = NE_NAMES[i % len(NE_NAMES)]
            st = get_comment_style(Path(name))
            year = rng.choice(["2020", "2019 - 2021", None])
            prefix = rng.choice(["SPDX-FileCopyrightText:", "SPDX-FileCopyrightText:", "Copyright (C)", "©", "SPDX-FileCopyrightText: ©"])
            cpr = ["%s %s%s" % (prefix, (year + " ") if year else "", h) for h in req["holders"]]
            if req["how"].startswith("cpr") and rng.random() < 0.25:
                # the same holder under two years: nearly equal as well
                cpr.append("%s 2017 %s" % (prefix, req["holders"][0]))
            multi = bool(st.can_handle_multi() and rng.random() < 0.25)
            merge = rng.random() < 0.15
            kind = rng.choice(NE_KINDS)
            probes = [c for c in cpr if not merge] + ["SPDX-FileContributor: " + c for c in req["con"] if not any(c != d and c in d for d in req["con"])]
            out.append({"name": name, "s": st.__name__, "cpr": cpr, "con": req["con"], "lic": req["lic"], "multi": multi, "merge": merge,
                        "t": base.BODIES[kind](st), "kind": kind, "how": req["how"], "opts": "%d%d" % (multi, merge), "seeds": seeds,
                        "probes": [p for p in probes if not any(p != q and p in q for q in probes)]})
        self._pending = out
        return out

    def job(self, case, root, run):
        rot = lambda l: l[run % len(l):] + l[:run % len(l)] if l else l      # noqa: E731
        st = style_by_name(case["s"])
        return {"mode": "api", "path": os.path.join(root, case["name"]), "cpr": rot(case["cpr"]), "con": rot(case["con"]), "lic": rot(case["lic"]),
                "style": st.SHORTHAND or None, "multi": case["multi"], "merge": case["merge"]}

    def show(self, case):
        return {k: case[k] for k in ("name", "cpr", "con", "lic", "multi", "merge", "t", "how", "seeds")}


class NearEqualCliStream(_SeededRuns):
    name = "nearequal-cli"
    rule = ("`reuse annotate` (click entry point) run 4 / 6 times with identical arguments, every run in a fresh interpreter under another "
            "PYTHONHASHSEED: --copyright / --contributor / --license values nearly equal as in stream `nearequal`, each of the ten "
            "--copyright-prefix values, --year once / twice / --exclude-year, --multi-line, --force-dot-license, --merge-copyrights, a "
            "text-adding custom template; 14 file types x tag-free bodies; oracle: tree bytes after runs 2..K = after run 1, every requested "
            "value stands once")

    def cases(self, tier, rng):
        from reuse.comment import get_comment_style
        from pathlib import Path
        n = 160 if tier == "thorough" else 36
        seeds = seeds_for(rng, tier)
        out = []
        for i in range(n):
            req = near_request(rng)
            name = NE_NAMES[(i * 5 + 3) % len(NE_NAMES)]
            st = get_comment_style(Path(name))
            argv = ["annotate"]
            for h in req["holders"]:
                argv += ["--copyright", h]
            for c in req["con"]:
                argv += ["--contributor", c]
            for l in req["lic"]:
                argv += ["--license", l]
            r = rng.random()
            if r < 0.5:
                argv += ["--year", "2020"] + (["--year", "2023"] if rng.random() < 0.3 else [])
            elif r < 0.7:
                argv.append("--exclude-year")
            else:
                argv += ["--year", "2019"]
            if rng.random() < 0.4:
                argv += ["--copyright-prefix", rng.choice(PREFIXES)]
            opts = ""
            r = rng.random()
            if r < 0.15:
                argv.append("--force-dot-license")
                opts += "d"
            elif r < 0.4 and st.can_handle_multi():
                argv.append("--multi-line")
                opts += "m"
            merge = rng.random() < 0.15
            if merge:
                argv.append("--merge-copyrights")
                opts += "g"
            tmpl = None
            if rng.random() < 0.15:
                tmpl = "adds-text"
                argv += ["--template", "mine"]
                opts += "t"
            kind = rng.choice(NE_KINDS)
            probes = list(req["holders"]) + ["SPDX-FileContributor: " + c for c in req["con"]]
            out.append({"name": name, "s": st.__name__, "argv": argv + [name], "t": base.BODIES[kind](st), "kind": kind, "how": req["how"], "opts": opts,
                        "tmpl": tmpl, "seeds": seeds, "probes": [p for p in probes if not any(p != q and p in q for q in probes)]})
        self._pending = out
        return out

    def files(self, case):
        from annotcorr import TEMPLATES
        files = {case["name"]: case["t"]}
        if case["tmpl"]:
            files[".reuse/templates/mine.jinja2"] = TEMPLATES[case["tmpl"]]
        return files

    def job(self, case, root, run):
        return {"mode": "cli", "root": root, "argv": case["argv"]}

    def show(self, case):
        return {k: case[k] for k in ("argv", "t", "tmpl", "how", "seeds")}


# --------------------------------------------------------------------------
# templates that add information of their own

CPR_LOOP = "{% for c in copyright_lines %}\n{{ c }}\n{% endfor %}\n"
CON_LOOP = "{% for c in contributor_lines %}\nSPDX-FileContributor: {{ c }}\n{% endfor %}\n"
LIC_LOOP = "{% for e in spdx_expressions %}\nSPDX-License-Identifier: {{ e }}\n{% endfor %}\n"

#: (kind, the line the template spells out, the request that already contains it: (cpr, lic, con))
FIXED = [
    ("cpr", "SPDX-FileCopyrightText: 2020 Project Authors", (["SPDX-FileCopyrightText: 2020 Project Authors"], [], [])),
    ("cpr", "Copyright (C) 2015 - 2020 The Foo Project", (["Copyright (C) 2015 - 2020 The Foo Project"], [], [])),
    ("cpr", "© 2019 Example GmbH <legal@example.com>", (["© 2019 Example GmbH <legal@example.com>"], [], [])),
    ("cpr", "SPDX-FileCopyrightText: The Foo Contributors", (["SPDX-FileCopyrightText: The Foo Contributors"], [], [])),
    ("lic", "SPDX-License-Identifier: Apache-2.0", ([], ["Apache-2.0"], [])),
    ("lic", "SPDX-License-Identifier: MIT", ([], ["MIT"], [])),
    ("lic", "SPDX-License-Identifier: GPL-3.0-or-later OR LicenseRef-Commercial", ([], ["GPL-3.0-or-later OR LicenseRef-Commercial"], [])),
    ("con", "SPDX-FileContributor: The Foo Team", ([], [], ["The Foo Team"])),
    ("text", "This file is part of Foo.", ([], [], [])),
    ("text", "All rights reserved. See the AUTHORS file.", ([], [], [])),
]
ADD_REQUESTS = [
    (["SPDX-FileCopyrightText: 2021 Jane Doe"], ["0BSD"], []),
    (["SPDX-FileCopyrightText: 2021 Jane Doe", "© 2018 张三"], ["0BSD", "ISC"], ["Alice"]),
    ([], ["0BSD"], []),
    (["SPDX-FileCopyrightText: 2021 Jane Doe"], [], []),
    ([], [], ["Alice"]),
    (["SPDX-FileCopyrightText: 2021 Jane Doe"], ["0BSD"], ["Alice", "Bob <bob@example.com>"]),
]
ADD_STYLES = ["PythonCommentStyle", "CCommentStyle", "CppCommentStyle", "HtmlCommentStyle", "JuliaCommentStyle", "LispCommentStyle", "TexCommentStyle",
              "JinjaCommentStyle", "MlCommentStyle", "BatchFileCommentStyle", "HaskellCommentStyle", "ReStructedTextCommentStyle"]
ADD_POSITIONS = ["first", "after-copyright", "before-licences", "last"]


def adding_template(fixed_lines, pos, st=None):
    """template text: the three loops of the default template with `fixed_lines` spelled out at `pos`; with `st` the template is
    pre-commented in that style (every line carries the style's own markers)"""
    fixed = "".join(l + "\n" for l in fixed_lines)
    parts = {"first": [fixed, CPR_LOOP, CON_LOOP, "\n", LIC_LOOP],
             "after-copyright": [CPR_LOOP, fixed, CON_LOOP, "\n", LIC_LOOP],
             "before-licences": [CPR_LOOP, CON_LOOP, "\n", fixed, LIC_LOOP],
             "last": [CPR_LOOP, CON_LOOP, "\n", LIC_LOOP, fixed]}[pos]
    text = "".join(parts)
    if st is None:
        return text
    out = []
    if st.SINGLE_LINE:
        pre = st.SINGLE_LINE + st.INDENT_AFTER_SINGLE
        for l in text.split("\n")[:-1]:
            out.append(l if l.startswith("{%") else (pre + l).rstrip())
        return "\n".join(out) + "\n"
    mid = st.INDENT_BEFORE_MIDDLE + st.MULTI_LINE.middle + st.INDENT_AFTER_MIDDLE
    for l in text.split("\n")[:-1]:
        out.append(l if l.startswith("{%") else (mid + l).rstrip())
    # the markers are text of the template, not Jinja syntax ('{#' opens a Jinja comment)
    lit = lambda m: '{{ "%s" }}' % m if "{" in m or "}" in m else m      # noqa: E731
    return lit(st.MULTI_LINE.start) + "\n" + "\n".join(out) + "\n" + st.INDENT_BEFORE_END + lit(st.MULTI_LINE.end) + "\n"


def _template(text):
    from jinja2 import Environment
    return Environment(trim_blocks=True).from_string(text)


def run_n(case, n=RUNS):
    from reuse import ReuseInfo, _LICENSING
    from reuse._annotate import add_header_to_file
    st = style_by_name(case["s"])
    outs = []
    with cli.scratch("rv-c10a-") as root:
        path = os.path.join(root, "f.txt")
        with open(path, "w", encoding="utf-8", newline="") as fp:
            fp.write(case["t"])
        for _ in range(n):
            info = ReuseInfo(spdx_expressions={_LICENSING.parse(x) for x in case["lic"]}, copyright_lines=set(case["cpr"]),
                             contributor_lines=set(case["con"]))
            out = io.StringIO()
            rc = add_header_to_file(path, info, _template(case["tmpl_text"]), case["commented"], style=st.SHORTHAND, force_multi=case["f"][1] == "1",
                                    skip_existing=False, merge_copyrights=case["f"][2] == "1", replace=True, out=out)
            with open(path, "r", encoding="utf-8", newline="") as fp:
                after = fp.read()
            if rc:
                outs.append(("F:" + ("commentCreate" if "Could not create comment" in out.getvalue() else "missingInfo")) + ("" if after == case["t"] or outs else "!changed"))
            else:
                outs.append("W:" + after)
    return outs


def add_cases(rng, tier, styles):
    """(fixed kind, fixed lines, position, request, relation of the request to the fixed lines)"""
    for sname in styles:
        st = style_by_name(sname)
        combos = [(f, p) for f in FIXED for p in ADD_POSITIONS]
        if tier != "thorough":
            combos = rng.sample(combos, 12)
        for (kind, line, own), pos in combos:
            fixed = [line]
            if rng.random() < 0.15:
                k2, l2, own2 = rng.choice([f for f in FIXED if f[1] != line])
                fixed.append(l2)
                kind = kind + "+" + k2
                own = tuple(a + b for a, b in zip(own, own2))
            rel = rng.choice(["unrelated", "unrelated", "contains", "contains", "equals"])
            cpr, lic, con = (list(x) for x in rng.choice(ADD_REQUESTS))
            if rel == "contains":
                cpr, lic, con = cpr + own[0], lic + [x for x in own[1] if x not in lic], con + own[2]
            elif rel == "equals" and any(own):
                cpr, lic, con = list(own[0]), list(own[1]), list(own[2])
            yield st, kind, fixed, pos, rel, cpr, lic, con


def probes_for(cpr, lic, con, fixed):
    text = "\n".join(fixed)
    ps = list(cpr) + ["SPDX-License-Identifier: " + l for l in lic] + ["SPDX-FileContributor: " + c for c in con]
    ps = [p for p in ps if p not in text and not any(p != q and p in q for q in ps + fixed)]
    return ps


class AddingTemplateStream(Stream):
    name = "addtemplates"
    rule = ("add_header_to_file run 5 times with a custom template that spells out a line of its own — a copyright notice (4 forms), a "
            "licence tag (3), a contributor line, plain text (2), one in seven: two of them — before the loops, after the copyright loop, in "
            "front of the licence loop, or last; uncommented and pre-commented in the file's style; 12 styles x {default, forced "
            "multi-line} x requests unrelated to the fixed line, containing it, or equal to it x tag-free bodies x {plain, "
            "--merge-copyrights}; oracle: bytes after run 2..5 = bytes after run 1 (a refusal on every run with the file untouched is fine "
            "and trivial), what was requested and is not spelled out by the template stands once; non-trivial = a header was written: "
            "distinct (style, fixed kind, position, relation, commented)")

    def cases(self, tier, rng):
        for st, kind, fixed, pos, rel, cpr, lic, con in add_cases(rng, tier, ADD_STYLES):
            commented = rng.random() < 0.3
            multi = "1" if (not commented and st.can_handle_multi() and rng.random() < 0.25) else "0"
            merge = "1" if rng.random() < 0.15 else "0"
            body = rng.choice(["empty", "code", "comment-first", "shebang", "crlf", "code-nofinal"])
            yield {"s": st.__name__, "f": "0" + multi + merge + "10", "tmpl_text": adding_template(fixed, pos, st if commented else None),
                   "commented": commented, "cpr": cpr, "lic": lic, "con": con, "t": base.BODIES[body](st), "kind": body,
                   "fixed": fixed, "fk": kind, "pos": pos, "rel": rel}

    def impl(self, case):
        return json.dumps(run_n(case))

    def oracle(self, case, impl_out):
        if impl_out.startswith("EXC"):
            return "crash: " + impl_out
        outs = json.loads(impl_out)
        if outs[0].endswith("!changed"):
            return "refused-but-changed: run 1 reported a failure and changed the file"
        first = outs[0]
        if not first.startswith("W:"):
            bad = [o for o in outs if o != first]
            return ("unstable-failure: runs give %r" % outs[:3]) if bad else None
        for i, o in enumerate(outs[1:], 2):
            if o != first:
                return "rerun-changes-file: run %d wrote %r, run 1 wrote %r" % (i, o[2:][:300], first[2:][:300])
        if case["f"][2] != "1":
            for p in probes_for(case["cpr"], case["lic"], case["con"], case["fixed"]):
                if first[2:].count(p) != 1:
                    return "header-count: %r stands %d times in the file after %d runs" % (p, first[2:].count(p), len(outs))
        return None

    def nontrivial(self, case, impl_out):
        if impl_out.startswith("EXC") or not json.loads(impl_out)[0].startswith("W:"):
            return None
        return (case["s"], case["fk"], case["pos"], case["rel"], case["commented"])

    def show(self, case):
        return {k: case[k] for k in ("s", "f", "tmpl_text", "commented", "cpr", "lic", "con", "t", "rel") if k in case}


ADD_CLI_NAMES = {"PythonCommentStyle": "f.py", "CCommentStyle": "f.c", "CppCommentStyle": "f.cpp", "HtmlCommentStyle": "f.html", "JuliaCommentStyle": "f.jl",
                 "LispCommentStyle": "f.el", "TexCommentStyle": "f.tex", "JinjaCommentStyle": "f.j2", "MlCommentStyle": "f.ml",
                 "BatchFileCommentStyle": "f.bat", "HaskellCommentStyle": "f.hs", "ReStructedTextCommentStyle": "f.rst"}


class AddingTemplateCliStream(Stream):
    name = "addtemplates-cli"
    rule = ("`reuse annotate --template mine` (click entry point, in process) run 5 times with identical arguments, the template "
            "(.reuse/templates/mine.jinja2 or mine.commented.jinja2) built as in stream `addtemplates`; the request is given as complete "
            "notices / --license / --contributor; with --multi-line, --force-dot-license, --merge-copyrights at random; oracle: tree "
            "bytes after runs 2..5 = after run 1 (same exit status), the requested values not spelled out by the template stand once")

    def cases(self, tier, rng):
        styles = ADD_STYLES if tier == "thorough" else rng.sample(ADD_STYLES, 5)
        for st, kind, fixed, pos, rel, cpr, lic, con in add_cases(rng, tier, styles):
            if tier != "thorough" and rng.random() < 0.35:
                continue
            dot = rng.random() < 0.12
            commented = not dot and rng.random() < 0.3
            argv = ["annotate", "--template", "mine"]
            for c in cpr:
                argv += ["--copyright", c]
            for l in lic:
                argv += ["--license", l]
            for c in con:
                argv += ["--contributor", c]
            if dot:
                argv.append("--force-dot-license")
            elif not commented and st.can_handle_multi() and rng.random() < 0.25:
                argv.append("--multi-line")
            merge = rng.random() < 0.15
            if merge:
                argv.append("--merge-copyrights")
            body = rng.choice(["empty", "code", "comment-first", "shebang", "crlf"])
            name = ADD_CLI_NAMES[st.__name__]
            yield {"name": name, "s": st.__name__, "argv": argv + [name], "t": base.BODIES[body](st), "commented": commented, "merge": merge,
                   "tmpl_text": adding_template(fixed, pos, st if commented else None), "cpr": cpr, "lic": lic, "con": con,
                   "fixed": fixed, "fk": kind, "pos": pos, "rel": rel}

    def impl(self, case):
        with cli.scratch("rv-c10ac-") as root:
            tname = ".reuse/templates/mine%s.jinja2" % (".commented" if case["commented"] else "")
            cli.write_tree(root, {case["name"]: case["t"], tname: case["tmpl_text"]})
            snaps = []
            for _ in range(RUNS):
                code, out, exc = cli.run_cli(case["argv"], root)
                if exc is not None:
                    return "EXC:%s:%s" % (type(exc).__name__, str(exc)[:80])
                snaps.append((code, [x for x in snapshot_text(root) if not x[0].startswith(".reuse")]))
            return json.dumps(snaps)

    def oracle(self, case, impl_out):
        if impl_out.startswith("EXC"):
            return "cli-crash: " + impl_out
        snaps = json.loads(impl_out)
        first = snaps[0]
        for i, s in enumerate(snaps[1:], 2):
            if s != first:
                return "rerun-changes-tree: run %d left %r, run 1 left %r" % (i, s, first)
        texts = "".join(v for k, kind, v in first[1] if kind == "file")
        if first[0] != 0:
            if [x for x in first[1] if x[1] == "file"] != [[case["name"], "file", case["t"]]]:
                return "refused-but-changed: exit status %d, yet the tree is %r" % (first[0], first[1])
            return None
        if not case["merge"]:
            for p in probes_for(case["cpr"], case["lic"], case["con"], case["fixed"]):
                if texts.count(p) != 1:
                    return "header-count: %r stands %d times in the tree after %d runs" % (p, texts.count(p), RUNS)
        return None

    def nontrivial(self, case, impl_out):
        if impl_out.startswith("EXC") or json.loads(impl_out)[0][0] != 0:
            return None
        return (case["s"], case["fk"], case["pos"], case["rel"], case["commented"], tuple(case["argv"][3:]))

    def show(self, case):
        return {k: case[k] for k in ("argv", "tmpl_text", "commented", "t", "rel")}


STREAMS = [NearEqualStream(), NearEqualCliStream(), AddingTemplateStream(), AddingTemplateCliStream()]
