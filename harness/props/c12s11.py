"""C12, one more region of the input space: a licence tag whose expression does not parse, in the same file as ignore blocks.

What the tool decides about a file with a mistyped expression (`MIT OR`, `MIT, Apache-2.0`, `(MIT` …) is its own business — the
unchanged code reports the error and takes nothing from the file.  Whatever it decides: nothing that stands *inside* an ignore
block may be attributed to the file.  And a mistyped expression that itself stands inside a block is hidden like everything else
there: the file is read as if the block were not there.

`badexpr`      — reuse_info_of_file on scratch files (also through FILE.license).
`badexpr-lint` — the real `reuse lint --json` over projects of several such files.

Ground truth is the generator's: every planted line is recorded with its place (inside / outside a block).  Values inside blocks
are distinct from the values outside, except where the same line is deliberately repeated outside (then it is attributed for that
reason).  Oracle, mistyped expression outside every block: attributed ⊆ planted outside.  Oracle, mistyped expressions inside
blocks only: attributed = planted outside (file short enough for the 4096-byte window, no snippet marker).
"""
import json
import logging
import os

from core import Stream
import cli
import c12 as base

#: expressions the licence-expression library rejects (checked against the library in `cases`; one that parses is dropped)
BAD_EXPRESSIONS = ["MIT OR", "MIT, Apache-2.0", "(MIT", "MIT)", "OR MIT", "MIT AND AND ISC", "MIT WITH", "MIT/Apache-2.0", "MIT OR (ISC",
                   "MIT OR OR ISC", "GPL-2.0-only WITH", "MIT AND", "AND", "MIT & ISC", "MIT;ISC", "MIT || ISC", "(MIT OR ISC) AND", "GPL-2.0+ OR"]
OUT_CPR = ["SPDX-FileCopyrightText: 2020 Jane Doe", "Copyright (C) 2019 Visible Corp", "© 2018 Visible GmbH", "SPDX-FileCopyrightText: 2021 Visible <v@example.com>"]
IN_CPR = ["SPDX-FileCopyrightText: 1999 Hidden Person", "Copyright (C) 2001 Hidden Corp", "© 2003 Hidden GmbH", "Copyright 1998 Hidden Holder",
          "SPDX-SnippetCopyrightText: 1997 Hidden Snippet", "SPDX-FileCopyrightText: Hidden No Year"]
OUT_LIC = ["MIT", "0BSD", "Apache-2.0 OR MIT"]
IN_LIC = ["GPL-3.0-or-later", "CC0-1.0", "LicenseRef-Hidden", "ISC AND Zlib"]
OUT_CON = ["Visible Helper", "Vera <vera@example.com>"]
IN_CON = ["Hidden Helper", "Hal <hal@example.com>"]
PRES = ["# ", "// ", "", "  # ", "-- ", "x = 1  # ", " * "]
MARK_TAILS = ["", "", " (generated)", " */", " -->"]
FILLER = ["x = x + 1", "generated code, do not edit", "}", "", "return 0;"]


def is_bad(expr):
    from license_expression import Licensing
    try:
        Licensing().parse(expr)
    except Exception:      # noqa
        return True
    return False


def make_file(rng, mode):
    """mode: 'bad-outside' | 'bad-inside' | 'bad-both' -> list of items [kind, value, inside?]; kinds: S E C L N B(ad licence) F(iller)"""
    items = []
    nb = rng.randint(1, 4)
    bad_out_left = 0 if mode == "bad-inside" else rng.randint(1, 2)
    bad_in_left = 0 if mode == "bad-outside" else rng.randint(1, 2)
    slots_out = nb + 1
    where_bad_out = sorted(rng.choice(range(slots_out)) for _ in range(bad_out_left))
    where_bad_in = sorted(rng.choice(range(nb)) for _ in range(bad_in_left))
    if mode != "bad-outside" and not where_bad_in:
        where_bad_in = [0]
    open_last = rng.random() < 0.15

    def region(inside, k):
        out = []
        for _ in range(rng.randint(0, 3)):
            r = rng.random()
            if r < 0.4:
                pool = IN_CPR if inside else OUT_CPR
                if inside and rng.random() < 0.15:
                    pool = OUT_CPR           # the same notice may also stand outside: then it is attributed for that reason
                out.append(["C", rng.choice(pool), inside])
            elif r < 0.6:
                out.append(["L", rng.choice(IN_LIC if inside else OUT_LIC), inside])
            elif r < 0.72:
                out.append(["N", rng.choice(IN_CON if inside else OUT_CON), inside])
            else:
                out.append(["F", rng.choice(FILLER), inside])
        for _ in range((where_bad_in if inside else where_bad_out).count(k)):
            out.insert(rng.randint(0, len(out)), ["B", rng.choice(BAD_EXPRESSIONS), inside])
        return out
    for b in range(nb):
        items += region(False, b)
        if rng.random() < 0.06:
            items.append(["E", "", False])           # a stray end marker
        items.append(["S", "", False])
        inner = region(True, b)
        if not any(x[0] in "CLN" for x in inner):
            inner.append(["C", rng.choice(IN_CPR), True])
        items += inner
        if not (b == nb - 1 and open_last):
            items.append(["E", "", False])
    if not (open_last):
        items += region(False, nb)
    elif bad_out_left and not any(x[0] == "B" and not x[2] for x in items):
        # the last block is open: what follows it is inside; the mistyped tag has to stand in front of a block then
        items.insert(0, ["B", rng.choice(BAD_EXPRESSIONS), False])
    if mode != "bad-inside" and not any(x[0] == "B" and not x[2] for x in items):
        items.insert(rng.choice([0, len(items)]) if not open_last else 0, ["B", rng.choice(BAD_EXPRESSIONS), False])
    return items


def render(spec):
    st, en = base._markers()
    pre = PRES[spec["pre"]]
    tail = MARK_TAILS[spec["mtail"]]
    lines = []
    for kind, v, _inside in spec["items"]:
        if kind == "S":
            lines.append(pre + st + tail)
        elif kind == "E":
            lines.append(pre + en + tail)
        elif kind == "C":
            lines.append(pre + v)
        elif kind in ("L", "B"):
            lines.append(pre + "SPDX-License-Identifier: " + v)
        elif kind == "N":
            lines.append(pre + "SPDX-FileContributor: " + v)
        else:
            lines.append(v)
    return "\n".join(lines) + "\n"


def planted(spec):
    """(outside, inside): dicts kind -> set of values as the reader reports them"""
    from license_expression import Licensing
    out = {"C": set(), "L": set(), "N": set()}
    ins = {"C": set(), "L": set(), "N": set()}
    for kind, v, inside in spec["items"]:
        if kind in "CLN":
            if kind == "L":
                v = str(Licensing().parse(v))
            (ins if inside else out)[kind].add(v)
    return out, ins


def has_bad_outside(spec):
    return any(k == "B" and not inside and is_bad(v) for k, v, inside in spec["items"])


def judge(spec, got):
    """got: {"C": set, "L": set, "N": set} attributed to the file"""
    out, ins = planted(spec)
    for k, what in (("C", "copyright notice"), ("L", "licence expression"), ("N", "contributor")):
        extra = got[k] - out[k]
        if extra:
            hidden = sorted(extra & ins[k])
            if hidden:
                return "attributed-from-inside-a-block: %s %r stands inside an ignore block only, yet it is attributed to the file" % (what, hidden)
            return "attributed-not-planted: %s %r is attributed to the file; outside the blocks stand %r" % (what, sorted(extra), sorted(out[k]))
    if not has_bad_outside(spec):
        # every mistyped expression of this file is hidden by a block: the file reads as if the blocks were not there
        want = {k: set(v) for k, v in out.items()}
        if not want["C"] and not want["L"]:
            want["N"] = set()       # nothing is reported for a file without copyright or licensing information
        for k, what in (("C", "copyright notice"), ("L", "licence expression"), ("N", "contributor")):
            if got[k] != want[k] and k != "N":
                return ("outside-not-attributed: the only mistyped expressions stand inside ignore blocks; %s outside the blocks: %r, attributed: %r"
                        % (what, sorted(want[k]), sorted(got[k])))
    return None


def specs(rng, n):
    out = []
    bad = [b for b in BAD_EXPRESSIONS if is_bad(b)]
    assert len(bad) >= 10
    for i in range(n):
        mode = ["bad-outside", "bad-outside", "bad-both", "bad-inside"][i % 4]
        spec = {"items": make_file(rng, mode), "pre": rng.randrange(len(PRES)), "mtail": rng.randrange(len(MARK_TAILS)), "mode": mode,
                "sib": rng.random() < 0.12}
        spec["items"] = [x for x in spec["items"] if x[0] != "B" or x[1] in bad]
        if len(render(spec).encode("utf-8")) < 3900:
            out.append(spec)
    return out


def info_key(got):
    return "L=%s|C=%s|N=%s" % tuple(";".join(sorted(got[k])) for k in "LCN")


def parse_key(s):
    parts = dict(p.split("=", 1) for p in s.split("|"))
    return {k: set(x for x in parts[k].split(";") if x) for k in "LCN"}


class BadExprStream(Stream):
    name = "badexpr"
    rule = ("reuse_info_of_file on scratch files (1 in 8 through FILE.license) of 1-4 ignore blocks (last one left open 15 %, stray end markers), "
            "marker and tag lines under 7 line prefixes (own / foreign comment markers, behind code, none), holding licence tags whose "
            "expression the licence-expression library rejects (18 shapes: dangling operator, comma / slash / semicolon lists, unbalanced "
            "parenthesis, doubled operator, WITH without exception …) outside every block (half), inside blocks only (quarter) or both "
            "(quarter), and copyright notices (6 forms) / licence tags / contributors inside the blocks, other values outside; oracle: "
            "nothing that stands inside a block only is attributed, whatever else the tool decides; where every mistyped expression is "
            "hidden by a block the attributed information equals what stands outside; non-trivial = distinct (mode, attributed information, "
            "hidden values)")

    def cases(self, tier, rng):
        return specs(rng, 4000 if tier == "thorough" else 500)

    def impl(self, case):
        from reuse.extract import reuse_info_of_file
        text = render(case)
        with cli.scratch("rv-c12b-") as root:
            path = os.path.join(root, "f.py")
            target = path
            if case.get("sib"):
                with open(path, "w", encoding="utf-8", newline="") as fp:
                    fp.write("x = 1\n")
                target = path + ".license"
            with open(target, "w", encoding="utf-8", newline="") as fp:
                fp.write(text)
            logging.disable(logging.CRITICAL)
            try:
                info = reuse_info_of_file(target, path, root)
            finally:
                logging.disable(logging.NOTSET)
        return info_key({"L": {str(e) for e in info.spdx_expressions}, "C": set(info.copyright_lines), "N": set(info.contributor_lines)})

    def oracle(self, case, impl_out):
        if impl_out.startswith("EXC"):
            return "crash: " + impl_out
        return judge(case, parse_key(impl_out))

    def nontrivial(self, case, impl_out):
        out, ins = planted(case)
        return (case["mode"], impl_out, tuple(sorted(ins["C"] | ins["L"] | ins["N"])))

    def show(self, case):
        return {"text": render(case), "mode": case["mode"], "sib": case.get("sib", False)}


class BadExprLintStream(Stream):
    name = "badexpr-lint"
    rule = ("real `reuse lint --json` (in-process CLI) over projects of 3-7 files built as in stream `badexpr` (file types .py / .c / .txt / "
            ".html, some carried by FILE.license), licence texts provided; per file the copyrights / spdx_expressions the report attributes "
            "are judged as in `badexpr` (contributors are not part of the report)")

    EXTS = [".py", ".c", ".txt", ".html", ".sh", ".md"]

    def cases(self, tier, rng):
        n = 120 if tier == "thorough" else 14
        for _ in range(n):
            k = rng.randint(3, 7)
            files = specs(rng, k + 2)[:k]
            for i, f in enumerate(files):
                f["name"] = rng.choice(["", "src/", "src/deep/"]) + "f%d%s" % (i, rng.choice(self.EXTS))
            yield {"files": files}

    def impl(self, case):
        tree = {"LICENSES/MIT.txt": "MIT\n", "LICENSES/0BSD.txt": "0BSD\n", "LICENSES/Apache-2.0.txt": "Apache\n"}
        for f in case["files"]:
            if f.get("sib"):
                tree[f["name"]] = "plain\n"
                tree[f["name"] + ".license"] = render(f)
            else:
                tree[f["name"]] = render(f)
        with cli.scratch("rv-c12l-") as root:
            cli.write_tree(root, tree)
            logging.disable(logging.CRITICAL)
            try:
                code, report, exc = cli.lint_json(root)
            finally:
                logging.disable(logging.NOTSET)
        if exc is not None or report is None:
            return "EXC:%s:%s" % (type(exc).__name__, str(exc)[:100])
        res = {}
        for entry in report["files"]:
            res[entry["path"]] = {"C": sorted(c["value"] for c in entry["copyrights"]), "L": sorted(e["value"] for e in entry["spdx_expressions"])}
        return json.dumps(res, sort_keys=True)

    def oracle(self, case, impl_out):
        if impl_out.startswith("EXC"):
            return "crash: " + impl_out
        res = json.loads(impl_out)
        for f in case["files"]:
            e = res.get(f["name"])
            if e is None:
                return "not-in-report: %s" % f["name"]
            out, _ins = planted(f)
            # the report has no contributors: take them as read
            why = judge(f, {"C": set(e["C"]), "L": set(e["L"]), "N": set(out["N"]) if (e["C"] or e["L"]) else set()})
            if why:
                head, _, rest = why.partition(": ")
                return "%s: in %s: %s" % (head, f["name"], rest)
        return None

    def nontrivial(self, case, impl_out):
        return impl_out if not impl_out.startswith("EXC") else None

    def show(self, case):
        return {"files": {f["name"] + (".license" if f.get("sib") else ""): render(f) for f in case["files"]}}


STREAMS = [BadExprStream(), BadExprLintStream()]
