"""C16, one more region of the input space: *every way an SPDX expression can be wrong* (and right), in every place the project's
files or the command line can hold one.

"unparseable expressions" is in the property's quantifier, but the streams so far used three literal ones (`MIT OR`, `(MIT`, the
empty string).  Here expressions are token sequences over {`(`, `)`, AND, OR, WITH, licence identifiers} — every sequence up to a
bounded length (the empty pair of parentheses, an operator directly behind an opening parenthesis, stacked openers, a closer first,
operators without operands, WITH without an exception …) and longer random ones, with and without blanks around the parentheses —
plus expressions nested hundreds of levels deep.  Whether a sequence is an expression is decided by `valid` below: the grammar of
SPDX Annex D on the token list, written from the specification and knowing nothing of the library the tool uses.  (Two identifiers
in a row are left out: the specification has no such expression, the library reads them as one name with a blank inside — a
leniency the property does not speak about; likewise a sequence Annex D rejects and the third-party parser nevertheless reads — a
dangling operator behind the second operand, 'MIT AND (ISC) AND' — is only required not to crash: `library_accepts`.)

Placements (the generator's ground truth is the placement and `valid`):
  toml       `SPDX-License-Identifier = "<e>"` (string or one element of an array) in REUSE.toml — a configuration file: invalid =>
             every command that loads the project ends with status 2 and a message naming the file; valid => the project loads
  toml-sub   the same in a nested sub/REUSE.toml
  tag        `# SPDX-License-Identifier: <e>` in a covered file (next to a good file) — invalid => the file is a read error or lacks
             information (lint family: status 1; spdx, download: 0 / 1), the run is not aborted, the good neighbour keeps its report;
             `reuse annotate` on that file ends with status 0 or 1
  sibling    the same tag in FILE.license
  option     `reuse annotate --license "<e>"` — invalid => usage error (status 2), nothing written; valid => status 0, header written
  dep5       `License: <e>` in .reuse/dep5 — any status in {0, 1, 2}
  template   a literal `SPDX-License-Identifier: <e>` in .reuse/templates/t.jinja2 — invalid => `annotate -t t` fails (status != 0) and
             changes nothing; valid => either answer (the read-back guard refuses a header that declares more than was requested)
In every case: never a traceback, never a status outside {0, 1, 2}.  Oracle only (the model's `parses` parameter is the real
parser: these are the inputs on which that parameter is ill-defined before the repair).
"""
import itertools
import json
import os
import re

from core import Stream
import cli
import c16 as base

OPEN, CLOSE, AND, OR, WITH = "(", ")", "AND", "OR", "WITH"
KEYWORDS = (OPEN, CLOSE, AND, OR, WITH)
IDS = ["MIT", "0BSD", "GPL-2.0-or-later", "Apache-2.0", "LicenseRef-Custom"]
EXC_IDS = ["Classpath-exception-2.0", "LLVM-exception"]


def valid(tokens):
    """SPDX Annex D on a token list:
         compound = simple | simple WITH exception-id | compound AND compound | compound OR compound | ( compound )
       (precedence does not matter for membership).  One pass with a counter for the open parentheses: an operand is expected at
       the start, after an opening parenthesis and after AND / OR; an operand is an identifier, optionally followed by WITH and an
       identifier, or a parenthesised expression."""
    depth = 0
    want_operand = True
    after_plain_id = False      # the previous token is an identifier that may still take a WITH
    i, n = 0, len(tokens)
    while i < n:
        t = tokens[i]
        if want_operand:
            if t == OPEN:
                depth += 1
            elif t in KEYWORDS:
                return False
            else:
                want_operand, after_plain_id = False, True
        else:
            if t == CLOSE:
                depth -= 1
                if depth < 0:
                    return False
                after_plain_id = False
            elif t in (AND, OR):
                want_operand, after_plain_id = True, False
            elif t == WITH and after_plain_id:
                i += 1
                if i >= n or tokens[i] in KEYWORDS:
                    return False
                after_plain_id = False
            else:
                return False
        i += 1
    return not want_operand and depth == 0


_LIB = None


def library_accepts(text):
    """The third-party parser (license-expression, not part of the code under test; a fresh instance, not the tool's) returns an
    expression for `text`.  Used for one thing only: a sequence that Annex D rejects but the library reads all the same ('MIT AND
    (ISC) AND': a dangling operator behind the second operand is dropped) is a leniency of the library the property does not speak
    about — for such a text only "no traceback, status in {0, 1, 2}" is demanded."""
    global _LIB
    if _LIB is None:
        from license_expression import Licensing
        _LIB = Licensing()
    try:
        return _LIB.parse(text) is not None
    except BaseException:  # noqa
        return False


def adjacent_ids(tokens):
    return any(a not in KEYWORDS and b not in KEYWORDS for a, b in zip(tokens, tokens[1:]))


def spell(tokens, tight):
    """the text of a token sequence: one blank between tokens; `tight` drops the blanks inside parentheses"""
    out = []
    for i, t in enumerate(tokens):
        if i and not (tight and (tokens[i - 1] == OPEN or t == CLOSE)):
            out.append(" ")
        out.append(t)
    return "".join(out)


def short_sequences(maxlen):
    alpha = [OPEN, CLOSE, AND, OR, WITH, "ID"]
    for n in range(1, maxlen + 1):
        for seq in itertools.product(alpha, repeat=n):
            if not adjacent_ids(seq):
                yield list(seq)


def fill_ids(rng, seq):
    out = []
    for i, t in enumerate(seq):
        if t != "ID":
            out.append(t)
        elif i and seq[i - 1] == WITH:
            out.append(rng.choice(EXC_IDS + IDS[:1]))
        else:
            out.append(rng.choice(IDS))
    return out


def rand_valid(rng, depth):
    if depth <= 0 or rng.random() < 0.3:
        t = [rng.choice(IDS)]
        if rng.random() < 0.2:
            t += [WITH, rng.choice(EXC_IDS)]
        return t
    k = rng.randint(2, 3)
    op = rng.choice([AND, OR])
    parts = []
    for i in range(k):
        if i:
            parts.append(op)
        sub = rand_valid(rng, depth - 1)
        parts += ([OPEN] + sub + [CLOSE]) if len(sub) > 1 and rng.random() < 0.8 else sub
    return parts


def break_it(rng, toks):
    """one edit of a valid token list: most results are no expressions (the recogniser decides)"""
    toks = list(toks)
    r = rng.random()
    i = rng.randrange(len(toks) + 1)
    if r < 0.3 and toks:
        del toks[min(i, len(toks) - 1)]
    elif r < 0.6:
        toks.insert(i, rng.choice([OPEN, CLOSE, AND, OR, WITH]))
    elif r < 0.8:
        toks[i:i] = [OPEN, CLOSE]
    elif toks:
        toks[min(i, len(toks) - 1)] = rng.choice([OPEN, CLOSE, AND, OR, WITH])
    return toks


def deep(kind, d):
    if kind == "parens":
        return [OPEN] * d + ["MIT"] + [CLOSE] * d
    if kind == "alternating":
        t = ["MIT"]
        for _ in range(d):
            t += [AND, OPEN, "0BSD", OR, OPEN, "ISC"]
        return t + [CLOSE] * (2 * d)
    if kind == "left":
        t = []
        for i in range(d):
            t += [OPEN]
        t += ["MIT"]
        for i in range(d):
            t += [AND if i % 2 else OR, "0BSD", CLOSE]
        return t
    if kind == "unclosed":
        return [OPEN] * d + ["MIT"]
    raise ValueError(kind)


TOML_HEAD = 'version = 1\n[[annotations]]\npath = "data/**"\nSPDX-FileCopyrightText = "2020 Jane"\n'
DEP5_HEAD = ("Format: https://www.debian.org/doc/packaging-manuals/copyright-format/1.0/\nUpstream-Name: demo\n\n"
             "Files: data/*\nCopyright: 2020 Jane\nLicense: ")
PLACEMENTS = ["toml", "toml-list", "toml-sub", "tag", "sibling", "option", "dep5", "template"]
PROJECT_COMMANDS = ["lint", "lint-json", "lint-lines", "lint-quiet", "lint-file", "spdx", "annotate", "annotate-skip", "convert-dep5", "download-all"]
COMMAND_ARGS = {
    "lint": ["lint"], "lint-json": ["lint", "--json"], "lint-lines": ["lint", "--lines"], "lint-quiet": ["lint", "--quiet"],
    "lint-file": ["lint-file", "src/good.py", "src/tagged.py", "data/t.txt"], "spdx": ["spdx"],
    "annotate": ["annotate", "-c", "Joe Bloggs", "-l", "MIT", "src/tagged.py"],
    "annotate-skip": ["annotate", "-c", "Joe Bloggs", "-l", "MIT", "--skip-existing", "src/tagged.py"],
    "convert-dep5": ["convert-dep5"], "download-all": ["download", "--all"],
}
LINT_FAMILY = {"lint", "lint-json", "lint-lines", "lint-quiet", "lint-file"}


def toml_string(s):
    return base.toml_str(s)


class ExpressionStream(Stream):
    name = "expressions"
    rule = ("SPDX expressions as token sequences over {( ) AND OR WITH identifier}: every sequence of <= 3 tokens (quick; <= 4 thorough) "
            "without two identifiers in a row, valid expressions of depth <= 4 and one-edit breakages of them, spelt with and without blanks "
            "inside parentheses, and expressions nested 50 … 3000 levels deep (parentheses only, alternating AND / OR, left-nested, never "
            "closed); placed as a REUSE.toml value (string / array element / nested file), a tag in a covered file, in FILE.license, the "
            "--license option, a dep5 License field, a literal in a template; x the sub-commands that load the project (a seeded "
            "sample of (expression, placement, command): quick 550, thorough 7000, the short operator-and-parenthesis sequences "
            "over-represented); oracle from the "
            "property text with SPDX Annex D as the definition of 'unparseable' — never a traceback, status in {0, 1, 2}, broken REUSE.toml "
            "=> 2 naming the file, bad tag => read error or no information while the neighbour keeps its report, bad --license => usage "
            "error and nothing written; oracle only; non-trivial = distinct (placement, command, validity, outcome)")

    def expressions(self, tier, rng):
        """[(tokens, tight)]"""
        out = []
        seen = set()

        def add(toks, tight):
            text = spell(toks, tight)
            if text not in seen and not adjacent_ids(toks):
                seen.add(text)
                out.append((toks, tight))
        for seq in short_sequences(4 if tier == "thorough" else 3):
            toks = fill_ids(rng, seq)
            add(toks, False)
            if OPEN in toks or CLOSE in toks:
                add(toks, True)
        for _ in range(600 if tier == "thorough" else 60):
            v = rand_valid(rng, rng.randint(1, 4))
            add(v, rng.random() < 0.5)
            b = break_it(rng, v)
            add(b, rng.random() < 0.5)
            if rng.random() < 0.3:
                add(break_it(rng, b), rng.random() < 0.5)
        return out

    def cases(self, tier, rng):
        cli.warm_up()
        exprs = self.expressions(tier, rng)
        allc = []
        for toks, tight in exprs:
            e = spell(toks, tight)
            ok = valid(toks)
            lenient = (not ok) and library_accepts(e)
            for pl in PLACEMENTS:
                cmds = ["annotate-option"] if pl == "option" else ["annotate-template"] if pl == "template" else PROJECT_COMMANDS
                for cmd in cmds:
                    c = {"e": e, "valid": ok, "pl": pl, "cmd": cmd}
                    if lenient:
                        c["lenient"] = True
                    allc.append(c)
        # the full product (expressions x placements x commands) is some 10^5 command runs: a seeded sample of it, in which the
        # short sequences made of parentheses and operators only — the shapes a parser is most likely never to have been shown —
        # in the placements that reach every handler are over-represented
        core = [c for c in allc if not c["valid"] and len(c["e"]) <= 12 and c["pl"] in ("toml", "tag", "option")
                and c["cmd"] in ("lint-json", "annotate", "annotate-option", "spdx")]
        keys = {id(c) for c in core}
        rest = [c for c in allc if id(c) not in keys]
        n_core, n_rest = (2500, 4500) if tier == "thorough" else (200, 350)
        allc = rng.sample(core, min(len(core), n_core)) + rng.sample(rest, min(len(rest), n_rest))
        for c in allc:
            yield c
        depths = [50, 120, 200, 300, 600, 1500, 3000] if tier == "thorough" else [300, 1500]
        for kind in ("parens", "alternating", "left", "unclosed"):
            for d in depths:
                toks = deep(kind, d)
                for pl in ("toml", "tag", "option", "template") if tier != "thorough" else PLACEMENTS:
                    cmds = ["annotate-option"] if pl == "option" else ["annotate-template"] if pl == "template" else \
                        (PROJECT_COMMANDS if tier == "thorough" else ["lint-json", "spdx", "annotate", "download-all"])
                    for cmd in cmds:
                        yield {"deep": [kind, d], "valid": valid(toks), "pl": pl, "cmd": cmd}

    @staticmethod
    def text(case):
        if "deep" in case:
            return spell(deep(*case["deep"]), True)
        return case["e"]

    def tree(self, case):
        e = self.text(case)
        pl = case["pl"]
        tree = {"src/good.py": base.HDR + "print(1)\n", "src/tagged.py": base.HDR + "print(2)\n", "data/t.txt": "hello\n",
                "LICENSES/MIT.txt": "MIT text\n"}
        if pl == "toml":
            tree["REUSE.toml"] = TOML_HEAD + "SPDX-License-Identifier = %s\n" % toml_string(e)
        elif pl == "toml-list":
            tree["REUSE.toml"] = TOML_HEAD + "SPDX-License-Identifier = [\"MIT\", %s]\n" % toml_string(e)
        elif pl == "toml-sub":
            tree["REUSE.toml"] = TOML_HEAD + 'SPDX-License-Identifier = "MIT"\n'
            tree["sub/REUSE.toml"] = TOML_HEAD.replace("data/**", "x/**") + "SPDX-License-Identifier = %s\n" % toml_string(e)
            tree["sub/x/y.txt"] = "y\n"
        elif pl == "tag":
            tree["src/tagged.py"] = "# SPDX-FileCopyrightText: 2020 Jane\n# SPDX-License-Identifier: %s\nprint(2)\n" % e
        elif pl == "sibling":
            tree["src/tagged.py"] = "print(2)\n"
            tree["src/tagged.py.license"] = "SPDX-FileCopyrightText: 2020 Jane\nSPDX-License-Identifier: %s\n" % e
        elif pl == "dep5":
            tree[".reuse/dep5"] = DEP5_HEAD + e + "\n"
        elif pl == "template":
            tree[".reuse/templates/t.jinja2"] = base.OK_TEMPLATE + "SPDX-License-Identifier: %s\n" % e
        return tree

    def config_file(self, case):
        return {"toml": "REUSE.toml", "toml-list": "REUSE.toml", "toml-sub": "sub/REUSE.toml"}.get(case["pl"])

    def impl(self, case):
        e = self.text(case)
        with cli.scratch("rv-c16x-") as root, base.no_network():
            cli.write_tree(root, self.tree(case))
            before = cli.snapshot(root)
            if case["cmd"] == "annotate-option":
                args = ["annotate", "-c", "Joe Bloggs", "--license", e, "src/good.py"]
            elif case["cmd"] == "annotate-template":
                args = ["annotate", "-c", "Joe Bloggs", "-l", "0BSD", "--template", "t", "src/good.py"]
            else:
                args = COMMAND_ARGS[case["cmd"]]
            mp = [] if case.get("mp") else ["--no-multiprocessing"]
            code, out, exc = cli.run_cli(mp + args, root)
            if exc is not None:
                return "traceback:" + type(exc).__name__
            after = cli.snapshot(root)
            changed = sorted(k for k in set(before) | set(after) if before.get(k) != after.get(k))
            named = ""
            cf = self.config_file(case)
            if cf and code == 2:
                named = " named:%d" % int(os.path.join(root, cf) in out)
            extra = ""
            if case["cmd"] == "lint-json" and code in (0, 1):
                try:
                    start = 0 if out.startswith("{\n") else out.index("\n{\n") + 1
                    rep = json.JSONDecoder().raw_decode(out[start:])[0]
                    re_ = {os.path.relpath(p, root) if os.path.isabs(p) else p for p in rep["non_compliant"]["read_errors"]}
                    reps = {f["path"]: "%d%d" % (bool(f["copyrights"]), bool(f["spdx_expressions"])) for f in rep["files"]}
                    extra = " good:%s tagged:%s" % (reps.get("src/good.py", "E" if "src/good.py" in re_ else "-"),
                                                    reps.get("src/tagged.py", "E" if "src/tagged.py" in re_ else "-"))
                except Exception as ex:  # noqa
                    extra = " badjson:%s" % type(ex).__name__
            written = ""
            if case["cmd"].startswith("annotate"):
                tgt = "src/good.py" if case["cmd"] in ("annotate-option", "annotate-template") else "src/tagged.py"
                data = b"".join(after[k][1] for k in (tgt, tgt + ".license") if k in after and after[k][0] == "file")
                written = " written:%d" % int(b"Joe Bloggs" in data)
            return "exit:%s changed:%s%s%s%s" % (code, ",".join(changed), named, extra, written)

    def oracle(self, case, impl_out):
        what = "%s expression %r as %s, `reuse %s`" % ("valid" if case["valid"] else "invalid", self.text(case)[:60], case["pl"], case["cmd"])
        if impl_out.startswith(("traceback", "EXC")):
            return "traceback: %s ended in an unhandled %s" % (what, impl_out.split(":", 1)[1][:80])
        m = re.match(r"exit:(-?\d+) changed:(\S*)", impl_out)
        code, changed = int(m.group(1)), [c for c in m.group(2).split(",") if c]
        if code not in (0, 1, 2):
            return "exit-status: %s: %s" % (what, code)
        ok, pl, cmd = case["valid"], case["pl"], case["cmd"]
        deep_case = "deep" in case
        if case.get("lenient"):
            return None if not (code != 0 and changed and cmd.startswith("annotate")) else "failed-but-wrote: %s: %s changed" % (what, changed)
        if pl in ("toml", "toml-list", "toml-sub"):
            loaded = code in (0, 1) or (cmd == "convert-dep5" and code == 2 and " named:" in impl_out and "named:0" in impl_out)
            if ok and not deep_case and not loaded:
                return "rejects-valid: %s: status %s" % (what, code)
            if not ok:
                if loaded:
                    return "accepts-broken: %s: the configuration file is not diagnosed (status %s)" % (what, code)
                if "named:1" not in impl_out:
                    return "not-named: %s: status 2 but the message does not name %s" % (what, self.config_file(case))
                if changed:
                    return "failed-but-wrote: %s: %s changed" % (what, changed)
            return None
        if pl in ("tag", "sibling"):
            if cmd in LINT_FAMILY and not ok and code != 1:
                return "exit-status: %s: status %s although a covered file holds no usable licensing information" % (what, code)
            if cmd in ("spdx", "download-all", "annotate", "annotate-skip") and code == 2:
                return "exit-status: %s: usage error" % what
            if cmd == "lint-json":
                mm = re.search(r"good:(\S+) tagged:(\S+)", impl_out)
                if not mm:
                    return "lint-json: %s: %s" % (what, impl_out[-40:])
                if mm.group(1) != "11":
                    return "neighbour-disturbed: %s: src/good.py is %s" % (what, mm.group(1))
                # (a tag without a value declares nothing -- fix 567a3c7 --, so the rest of the file still counts: the file then
                # lacks licensing information only, which is "reported as lacking information" all the same)
                if not ok and mm.group(2) not in (("E", "00", "10") if not case.get("e", "x").strip() else ("E", "00")):
                    return "bad-expression: %s: the file is neither a read error nor without information (%s)" % (what, mm.group(2))
                if ok and not deep_case and mm.group(2) != "11":
                    return "rejects-valid: %s: the file's information is %s" % (what, mm.group(2))
            if cmd in ("annotate", "annotate-skip") and code == 1 and changed:
                return "failed-but-wrote: %s: %s changed" % (what, changed)
            return None
        if pl == "option":
            if ok and not deep_case and (code != 0 or "written:1" not in impl_out):
                return "rejects-valid: %s: status %s" % (what, code)
            if not ok:
                if code != 2:
                    return "accepts-broken: %s: status %s instead of a usage error" % (what, code)
                if changed:
                    return "failed-but-wrote: %s: %s changed" % (what, changed)
            if code != 0 and changed:
                return "failed-but-wrote: %s: %s changed" % (what, changed)
            return None
        if pl == "template":
            # (a licence tag without a value in a template declares nothing -- fix 567a3c7 --: such a template is not broken)
            if not ok and case.get("e", "x").strip():
                if code == 0:
                    return "broken-template-accepted: %s: status 0" % what
                if changed:
                    return "failed-but-wrote: %s: %s changed" % (what, changed)
            # a template that spells out a *valid* expression of its own declares more than was requested: the tool's read-back
            # guard refuses such a header (status 1) — either answer, as long as a refusal changes nothing
            if code != 0 and changed:
                return "failed-but-wrote: %s: %s changed" % (what, changed)
            return None
        return None    # dep5: status and no traceback, judged above

    def classify(self, case, failure):
        return None

    def nontrivial(self, case, impl_out):
        return (case["pl"], case["cmd"], case["valid"], bool(case.get("lenient")), "deep" in case, impl_out.split(" ")[0])

    def show(self, case):
        return {"expression": self.text(case)[:200], "valid": case["valid"], "placement": case["pl"], "command": case["cmd"]}


STREAMS = [base.bounded(ExpressionStream)()]
