"""C14, one more region of the input space: several reports in ONE process.

`sameroot` — "the results for a project are a function of its contents only": 2-3 `.reuse/dep5` projects with the same file layout and
different dep5 files (other holders / licences, other paragraph shapes) are reported one after the other *in the same process*
through the API (Project.from_directory + ProjectReport.generate), each under the same relative spelling of its root — `.` after
a chdir into it, `proj` from its parent, `..` from a sub-directory — or one directory whose contents are replaced between two
reports (then also under its absolute path), serially or with the worker pool, in any mixture.  Whatever was reported earlier in
the process must not show: each report is judged against the generator's ground truth for *that* project (the last dep5
paragraph matching the path, written from a tagged form, aggregated with the file's own header; licences used / missing /
unused from the licences the project's own sources name and its own LICENSES/ directory).  No model (the sequence of reports in a
process is outside it).
"""
import json
import os
import random
import shutil

from core import Stream
import cli

LICS = ["MIT", "0BSD", "ISC", "Zlib", "CC0-1.0", "Unlicense", "Apache-2.0", "BSD-3-Clause"]
FILES = ["data/other.csv", "data/table.csv", "data/sub/deep.csv", "src/main.c", "src/util.c", "docs/guide.md", "top.txt"]
FORMS = [("under", "data"), ("under", "src"), ("under", "docs"), ("under", "data/sub"), ("exact", "top.txt"), ("exact", "src/main.c"), ("suffix", ".csv"),
         ("suffix", ".c"), ("prefix", "d")]


def pattern(form):
    return {"all": "*", "exact": form[-1], "under": form[-1] + "/*", "prefix": form[-1] + "*", "suffix": "*" + form[-1]}[form[0]]


def matches(form, path):
    kind, arg = form[0], form[-1]
    return (kind == "all" or (kind == "exact" and path == arg) or (kind == "under" and path.startswith(arg + "/"))
            or (kind == "prefix" and path.startswith(arg)) or (kind == "suffix" and path.endswith(arg)))


def gen_project(rng, k):
    """-> {"files": {path: text}, "truth": {"./path": [copyright lines, licences]}, "used": [...], "unused": [...]}"""
    paras = [(("all",), "%d Everyone of project %d" % (2010 + k, k), rng.choice(LICS))] if rng.random() < 0.8 else []
    for j, form in enumerate(rng.sample(FORMS, rng.randint(1, 4))):
        paras.append((form, "%d Holder %d of project %d" % (2000 + j, j, k), rng.choice(LICS)))
    dep5 = "Format: https://www.debian.org/doc/packaging-manuals/copyright-format/1.0/\n"
    for form, holder, lic in paras:
        dep5 += "\nFiles: %s\nCopyright: %s\nLicense: %s\n" % (pattern(form), holder, lic)
    files = {".reuse/dep5": dep5}
    truth = {}
    used = set()
    for path in FILES:
        own = rng.choice("nnnCLB")
        oc = ["SPDX-FileCopyrightText: 2019 Own of project %d" % k] if own in "CB" else []
        ol = [rng.choice(LICS)] if own in "LB" else []
        files[path] = "".join("# %s\n" % c for c in oc) + "".join("# SPDX-License-Identifier: %s\n" % l for l in ol) + "content %d\n" % k
        hits = [(h, l) for form, h, l in paras if matches(form, path)]
        cps = sorted(set(oc + ([hits[-1][0]] if hits else [])))
        ls = sorted(set(ol + ([hits[-1][1]] if hits else [])))
        truth["./" + path] = [cps, ls]
        used |= set(ls)
    extra = set(rng.sample(LICS, rng.choice([0, 0, 1]))) - used
    for l in sorted(used | extra):
        files["LICENSES/%s.txt" % l] = "text of %s\n" % l
    return {"files": files, "truth": truth, "used": sorted(used), "unused": sorted(extra)}


class SameRootStream(Stream):
    name = "sameroot"
    rule = ("2-3 .reuse/dep5 projects of one layout (7 covered files in data/, data/sub/, src/, docs/, root; 0-1 `*` paragraph + 1-4 "
            "paragraphs over `dir/*`, a literal path, `*.ext`, `d*`, each with a holder naming its project and one of 8 licences; own "
            "headers {none x3, copyright, licence, both}; LICENSES/ = the licences the project names + 0-1 unused) reported in ONE "
            "process through Project.from_directory + ProjectReport.generate, 2-5 reports in a random order with repeats, every "
            "report under the same spelling of its root: `.` from inside, `proj` from the parent, `..` from data/ (each project in "
            "a directory of its own), or one directory whose contents are replaced between the reports (`.`, `proj`, `..` or its "
            "absolute path); each report serial or with the worker pool (30 %); oracle: per report the generator's ground truth of "
            "that project — per file the copyright lines and licences (last matching paragraph + own header), the used, missing "
            "and unused licences; no model; non-trivial = distinct sequence in which two different projects follow each other")

    def cases(self, tier, rng):
        for _ in range(400 if tier == "thorough" else 30):
            yield {"seed": rng.randrange(1 << 30)}

    def _gen(self, case):
        rng = random.Random(case["seed"])
        projects = [gen_project(rng, k) for k in range(rng.randint(2, 3))]
        mode = rng.choice(["dot", "name", "dotdot", "replace", "replace"])
        spelling = {"dot": "dot", "name": "name", "dotdot": "dotdot"}.get(mode) or rng.choice(["dot", "name", "dotdot", "abs"])
        steps = []
        prev = None
        for _ in range(rng.randint(2, 5)):
            k = rng.choice([i for i in range(len(projects)) if i != prev] if rng.random() < 0.8 or prev is None else [prev])
            steps.append({"project": k, "pool": rng.random() < 0.3})
            prev = k
        return projects, mode, spelling, steps

    def impl(self, case):
        import logging
        import warnings
        from pathlib import Path
        from reuse.project import Project
        from reuse.report import ProjectReport
        projects, mode, spelling, steps = self._gen(case)
        outs = []
        saved = os.environ.get("_SUPPRESS_DEP5_WARNING")
        os.environ["_SUPPRESS_DEP5_WARNING"] = "1"
        logging.disable(logging.CRITICAL)
        try:
            with cli.scratch("rv-c14sr-") as top:
                if mode != "replace":
                    for k, pr in enumerate(projects):
                        cli.write_tree(os.path.join(top, "p%d" % k, "proj"), pr["files"])
                for step in steps:
                    k = step["project"]
                    d = os.path.join(top, "p%d" % (k if mode != "replace" else 0), "proj")
                    if mode == "replace":
                        shutil.rmtree(d, ignore_errors=True)
                        cli.write_tree(d, projects[k]["files"])
                    cwd, root = {"dot": (d, "."), "name": (os.path.dirname(d), "proj"), "dotdot": (os.path.join(d, "data"), ".."), "abs": (top, d)}[spelling]
                    try:
                        with cli.chdir(cwd), warnings.catch_warnings():
                            warnings.simplefilter("ignore")
                            project = Project.from_directory(Path(root))
                            report = ProjectReport.generate(project, do_checksum=False, multiprocessing=step["pool"])
                            res = {"files": {fr.name: [sorted({c for i in fr.reuse_infos for c in i.copyright_lines}),
                                                       sorted({str(e) for i in fr.reuse_infos for e in i.spdx_expressions})] for fr in report.file_reports},
                                   "used": sorted(report.used_licenses), "missing": sorted(report.missing_licenses),
                                   "unused": sorted(str(x) for x in report.unused_licenses), "read_errors": sorted(str(x) for x in report.read_errors)}
                    except Exception as e:       # noqa: BLE001
                        return "EXC:%s:%s" % (type(e).__name__, str(e)[:200])
                    outs.append(res)
        finally:
            logging.disable(logging.NOTSET)
            if saved is None:
                os.environ.pop("_SUPPRESS_DEP5_WARNING", None)
            else:
                os.environ["_SUPPRESS_DEP5_WARNING"] = saved
        return json.dumps(outs, sort_keys=True)

    def model_lines(self, case):
        return []

    def oracle(self, case, impl_out):
        if impl_out.startswith("EXC"):
            return "sameroot-crash: " + impl_out
        projects, mode, spelling, steps = self._gen(case)
        outs = json.loads(impl_out)
        how = {"dot": "root '.' from inside", "name": "root 'proj' from the parent directory", "dotdot": "root '..' from data/", "abs": "absolute root"}[spelling]
        for n, (step, got) in enumerate(zip(steps, outs)):
            pr = projects[step["project"]]
            where = "report %d of %d in the process (project %d, %s, %s, %s; earlier in the process: projects %s)" % (
                n + 1, len(steps), step["project"], how, "one directory, contents replaced" if mode == "replace" else "a directory per project",
                "pool" if step["pool"] else "serial", [s["project"] for s in steps[:n]])
            if got["read_errors"]:
                return "report-depends-on-history: %s: read errors %s" % (where, got["read_errors"])
            for name in sorted(set(pr["truth"]) | set(got["files"])):
                if got["files"].get(name) != pr["truth"].get(name):
                    return "report-depends-on-history: %s: %s is attributed %s, the project's own dep5 and header say %s" % (
                        where, name, got["files"].get(name), pr["truth"].get(name))
            for key, want in (("used", pr["used"]), ("missing", []), ("unused", pr["unused"])):
                if got[key] != want:
                    return "report-depends-on-history: %s: %s licences %s, by the project's own contents %s" % (where, key, got[key], want)
        return None

    def nontrivial(self, case, impl_out):
        if impl_out.startswith("EXC"):
            return None
        projects, mode, spelling, steps = self._gen(case)
        ks = [s["project"] for s in steps]
        return (case["seed"],) if any(a != b for a, b in zip(ks, ks[1:])) else None

    def show(self, case):
        projects, mode, spelling, steps = self._gen(case)
        return {"projects": [p["files"] for p in projects], "layout": mode, "root_spelling": spelling, "reports": steps}


STREAMS = [SameRootStream()]
