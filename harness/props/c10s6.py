"""C10, two more regions of the input space.

`openers`  — header texts (holder, contributor, template text) that contain a style's multi-line *opener* or *middle marker*
             but not its closer (`Jane Doe (*1970)`, `#= x`, `(: y`, `<!-- z`), for every style that can write a multi-line
             comment, in both line modes, through add_header_to_file and through the real command line.
`mergeone` — `--merge-copyrights` with exactly ONE requested notice that is not in the form the merge step writes
             (compact or lopsided year ranges, a trailing comma, a prefix outside the table, lower-case `(c)`, the same
             --year twice, years out of order) on files that have no header yet.

Both are judged by the property text alone: the bytes after runs 2..5 equal the bytes after run 1, and what was requested
stands in the file exactly once.
"""
import io
import json
import os
import re

from core import Stream, enc, dec, enc_list
import cli
from annotcorr import all_styles, style_by_name
import c08
import c10 as base

RUNS = base.RUNS


# --------------------------------------------------------------------------
# shared: N runs of add_header_to_file with an arbitrary template text


def _template(text):
    if text is None:
        return None
    from jinja2 import Environment
    return Environment(trim_blocks=True).from_string(text)


def run_n(case, n=RUNS):
    """add_header_to_file n times on one scratch file -> ['W:<text>' | 'F:<why>']"""
    from reuse import ReuseInfo, _LICENSING
    from reuse._annotate import add_header_to_file
    st = style_by_name(case["s"])
    outs = []
    with cli.scratch("rv-c10o-") as root:
        path = os.path.join(root, "f.txt")
        with open(path, "w", encoding="utf-8", newline="") as fp:
            fp.write(case["t"])
        for _ in range(n):
            info = ReuseInfo(spdx_expressions={_LICENSING.parse(x) for x in case["lic"]}, copyright_lines=set(case["cpr"]),
                             contributor_lines=set(case["con"]))
            out = io.StringIO()
            rc = add_header_to_file(path, info, _template(case.get("tmpl_text")), False, style=st.SHORTHAND, force_multi=case["f"][1] == "1",
                                    skip_existing=False, merge_copyrights=case["f"][2] == "1", replace=True, out=out)
            if rc:
                outs.append("F:" + ("commentCreate" if "Could not create comment" in out.getvalue() else "missingInfo"))
            else:
                with open(path, "r", encoding="utf-8", newline="") as fp:
                    outs.append("W:" + fp.read())
    return outs


def judge_probes(outs, probes):
    """the property on successive outcomes; `probes`: strings that stand exactly once in a file with one header"""
    first = outs[0]
    if not first.startswith("W:"):
        bad = [o for o in outs if o != first]
        return ("unstable-failure: runs give %r" % outs[:3]) if bad else None
    for i, o in enumerate(outs[1:], 2):
        if o != first:
            return "rerun-changes-file: run %d wrote %r, run 1 wrote %r" % (i, o[2:][:200], first[2:][:200])
    for p in probes:
        n = first[2:].count(p)
        if n != 1:
            return "header-count: %r stands %d times in the file after %d runs" % (p, n, len(outs))
    return None


# --------------------------------------------------------------------------
# openers


def marked_values(st):
    """header values holding the style's opener / middle marker, never its closer: [(what, value)]"""
    start, mid, end = st.MULTI_LINE.start, st.MULTI_LINE.middle, st.MULTI_LINE.end
    vals = [("opener-inside", "Jane Doe %s1970)" % start), ("opener-spaced", "Jane %s Doe" % start), ("opener-last", "Jane Doe %s" % start),
            ("opener-twice", "J %s a %s b" % (start, start))]
    if mid:
        vals += [("middle-inside", "Jane %s Doe" % mid), ("opener-middle", "Jane %s%s Doe" % (start, mid))]
    return [(w, v) for w, v in vals if end not in v]


TEMPLATE_WITH = ("{% for c in copyright_lines %}\n{{ c }}\n{% endfor %}\n{% for c in contributor_lines %}\nSPDX-FileContributor: {{ c }}\n{% endfor %}\n"
                 "note MARK here\n\n{% for e in spdx_expressions %}\nSPDX-License-Identifier: {{ e }}\n{% endfor %}\n")
OPENER_BODIES = ["empty", "code", "comment-first", "shebang", "crlf", "code-nofinal"]


class OpenerStream(base.TheoremStream):
    name = "openers"
    rule = ("add_header_to_file run 5 times: every style that can write a multi-line comment x {default, --multi-line} x the style's own "
            "opener / middle marker (never the closer) inside the holder, the contributor or the template text (inside a word, between "
            "blanks, last, twice, opener + middle) x tag-free bodies; oracle: bytes after run 2..5 = bytes after run 1 and every requested "
            "value stands exactly once; the hypotheses of C10_idem_text_partial are evaluated by the driver on the default-template cases "
            "and, where they hold, both runs must equal the theorem's text; non-trivial = a header was written")

    def cases(self, tier, rng):
        out = []
        for st in all_styles():
            if not st.can_handle_multi() or st.__name__ in ("UncommentableCommentStyle", "EmptyCommentStyle"):
                continue
            for m in ("0", "1"):
                for what, v in marked_values(st):
                    kinds = OPENER_BODIES if tier == "thorough" else ["empty", rng.choice(OPENER_BODIES[1:])]
                    for kind in kinds:
                        for where in ("holder", "contributor", "template"):
                            if tier != "thorough" and where != "holder" and rng.random() < 0.5:
                                continue
                            case = {"s": st.__name__, "f": "0" + m + "010", "tmpl": "default", "cpr": ["SPDX-FileCopyrightText: 2020 Jane Doe"],
                                    "lic": ["MIT"], "con": [], "t": base.BODIES[kind](st), "kind": kind, "where": where, "what": what, "probe": v}
                            if where == "holder":
                                case["cpr"] = ["SPDX-FileCopyrightText: 2020 " + v]
                            elif where == "contributor":
                                case["con"] = [v]
                            else:
                                case["tmpl"] = "custom"
                                # {% raw %}: the marker is text of the template, not Jinja syntax ('{#' opens a Jinja comment)
                                case["tmpl_text"] = TEMPLATE_WITH.replace("MARK", "{% raw %}" + v + "{% endraw %}")
                            out.append(case)
        return c08.attach_bad(out)

    def impl(self, case):
        return json.dumps(run_n(case))

    def oracle(self, case, impl_out):
        if impl_out.startswith("EXC"):
            return "crash: " + impl_out
        return judge_probes(json.loads(impl_out), [case["probe"], "SPDX-License-Identifier: MIT"])

    def nontrivial(self, case, impl_out):
        if impl_out.startswith("EXC") or not json.loads(impl_out)[0].startswith("W:"):
            return None
        return (case["s"], case["f"], case["where"], case["what"], case["kind"])

    def show(self, case):
        return {k: case[k] for k in ("s", "f", "tmpl", "tmpl_text", "cpr", "lic", "con", "t", "kind", "where", "what") if k in case}


class OpenerCliStream(Stream):
    name = "openers-cli"
    rule = ("`reuse annotate` (click entry point, in process) run 5 times with identical arguments: one file name per style that can write a "
            "multi-line comment (from the extension / file-name tables), with and without --multi-line, --copyright / --contributor holding "
            "the style's opener or middle marker without the closer; oracle: tree bytes after runs 2..5 = after run 1, the value stands once")

    def cases(self, tier, rng):
        from reuse import comment
        by_style = {}
        for e, st in sorted(comment.EXTENSION_COMMENT_STYLE_MAP_LOWERCASE.items()):
            by_style.setdefault(st.__name__, []).append("f" + e)
        for n, st in sorted(comment.FILENAME_COMMENT_STYLE_MAP_LOWERCASE.items()):
            by_style.setdefault(st.__name__, []).append(n)
        for sname, names in sorted(by_style.items()):
            st = style_by_name(sname)
            if not st.can_handle_multi() or sname in ("UncommentableCommentStyle", "EmptyCommentStyle"):
                continue
            vals = marked_values(st)
            for multi in (False, True):
                picks = vals if tier == "thorough" else [vals[0], rng.choice(vals[1:])]
                for what, v in picks:
                    opt = rng.choice(["--copyright", "--copyright", "--contributor"])
                    argv = ["annotate", "--license", "MIT", opt, v] + (["--copyright", "Plain Holder"] if opt == "--contributor" else [])
                    if multi:
                        argv.append("--multi-line")
                    yield {"name": rng.choice(names), "s": sname, "argv": argv, "t": rng.choice(["", "x = 1\n", "x = 1\r\ny\r\n"]), "probe": v, "what": what}

    def impl(self, case):
        with cli.scratch("rv-c10oc-") as root:
            cli.write_tree(root, {case["name"]: case["t"]})
            snaps = []
            for _ in range(RUNS):
                code, out, exc = cli.run_cli(case["argv"] + [case["name"]], root)
                if exc is not None:
                    return "EXC:%s:%s" % (type(exc).__name__, str(exc)[:80])
                snap = cli.snapshot(root)
                snaps.append((code, sorted((k, v[0], v[1].decode("utf-8", "replace") if isinstance(v[1], bytes) else v[1]) for k, v in snap.items())))
            return json.dumps(snaps)

    def oracle(self, case, impl_out):
        if impl_out.startswith("EXC"):
            return "cli-crash: " + impl_out
        snaps = json.loads(impl_out)
        first = snaps[0]
        for i, s in enumerate(snaps[1:], 2):
            if s != first:
                return "rerun-changes-tree: run %d left %r, run 1 left %r" % (i, s, first)
        if first[0] == 0:
            texts = "".join(v for k, kind, v in first[1] if kind == "file")
            for p in (case["probe"], "SPDX-License-Identifier: MIT"):
                if texts.count(p) != 1:
                    return "header-count: %r stands %d times in the tree after %d runs" % (p, texts.count(p), RUNS)
        return None

    def nontrivial(self, case, impl_out):
        return (case["s"], tuple(case["argv"])) if not impl_out.startswith("EXC") and json.loads(impl_out)[0][0] == 0 else None


# --------------------------------------------------------------------------
# mergeone

_TYPED_TAG = re.compile(r"^(SPDX-(File|Snippet)CopyrightText:|Copyright|©)(\s+(\([Cc]\)|©|Copyright))*")


def doubled_blank_prefix(notice):
    """Known-finding shape `c10-merge-doubled-blank-prefix`: the tag words in front of the notice are separated by more than one
    blank ('Copyright  (C) 2019-2021 X'), so that the reader takes '(C) 2019-2021 X' for the holder."""
    m = _TYPED_TAG.match(notice)
    return bool(m and re.search(r"\s{2,}", m.group(0)))


#: what a person types in front of a notice: the ten documented prefixes and spellings the reader accepts but the writer never produces
TYPED_PREFIXES = ["SPDX-FileCopyrightText:", "SPDX-FileCopyrightText: (C)", "SPDX-FileCopyrightText: Copyright (C)", "SPDX-FileCopyrightText: Copyright",
                  "SPDX-FileCopyrightText: Copyright ©", "SPDX-FileCopyrightText: ©", "Copyright", "Copyright (C)", "Copyright ©", "©",
                  "Copyright (c)", "SPDX-FileCopyrightText: (c)", "SPDX-FileCopyrightText: Copyright (c)", "SPDX-SnippetCopyrightText:",
                  "Copyright  (C)", "SPDX-FileCopyrightText:  ©"]
#: years as typed: (text, canonical?)
TYPED_YEARS = ["2020", "2019 - 2021", "2019-2021", "2019 -2021", "2019- 2021", "2020,", "2019-2021,", "2020 - 2020", "2021 - 2019", "2021-2019", None]
MERGE_HOLDERS = ["Jane Doe", "Jane Doe <jane@example.com>", "Jane", "ACME Inc.", "张三", "R&D, Ltd.", "José Álvarez"]
MERGE_STYLES = ["PythonCommentStyle", "CCommentStyle", "CppCommentStyle", "HtmlCommentStyle", "JuliaCommentStyle", "MlCommentStyle", "LispCommentStyle",
                "TexCommentStyle", "JinjaCommentStyle", "BatchFileCommentStyle"]
MERGE_BODIES = ["empty", "code", "comment-first", "shebang", "crlf"]


class MergeOneStream(Stream):
    name = "mergeone"
    rule = ("add_header_to_file(merge_copyrights=True) run 5 times on files without a header, exactly one requested notice (one in four: a second "
            "one of another holder — nothing to merge either way): 16 typed prefixes "
            "(the ten documented ones, lower-case (c), SPDX-SnippetCopyrightText, doubled blanks) x 11 typed year forms (single, spaced / "
            "compact / lopsided range, trailing comma, equal ends, descending range, none) x 7 holders x 10 styles x 5 tag-free bodies, with "
            "and without a licence / a contributor, forced multi-line where supported (all combinations of prefix x year in every run, the "
            "rest sampled); oracle: bytes after run 2..5 = bytes after run 1, every holder stands exactly once; non-trivial = distinct "
            "(prefix, year form, outcome)")

    def cases(self, tier, rng):
        reps = 6 if tier == "thorough" else 1
        for p in TYPED_PREFIXES:
            for y in TYPED_YEARS:
                for _ in range(reps):
                    h = rng.choice(MERGE_HOLDERS)
                    st = style_by_name(rng.choice(MERGE_STYLES))
                    notice = "%s %s%s" % (p, (y + " ") if y else "", h)
                    cpr, holders = [notice], [h]
                    if rng.random() < 0.25:
                        # a second notice, of another holder: still nothing to merge, both are rewritten
                        h2 = rng.choice([x for x in MERGE_HOLDERS if x not in h and h not in x])
                        y2 = rng.choice(TYPED_YEARS)
                        cpr.append("%s %s%s" % (rng.choice(TYPED_PREFIXES[:14]), (y2 + " ") if y2 else "", h2))
                        holders.append(h2)
                    multi = "1" if st.can_handle_multi() and rng.random() < 0.3 else "0"
                    yield {"s": st.__name__, "f": "0" + multi + "110", "cpr": cpr, "lic": rng.choice([["MIT"], ["MIT"], [], ["0BSD", "MIT"]]),
                           "con": rng.choice([[], [], ["Alice"]]), "t": base.BODIES[rng.choice(MERGE_BODIES)](st), "holders": holders, "p": p, "y": y}

    def impl(self, case):
        return json.dumps(run_n(case))

    def oracle(self, case, impl_out):
        if impl_out.startswith("EXC"):
            return "crash: " + impl_out
        return judge_probes(json.loads(impl_out), case["holders"] + ["SPDX-License-Identifier: " + l for l in case["lic"]])

    def classify(self, case, failure):
        return "c10-merge-doubled-blank-prefix" if failure.startswith("rerun-changes-file") and any(doubled_blank_prefix(c) for c in case["cpr"]) else None

    def nontrivial(self, case, impl_out):
        return (case["p"], case["y"], impl_out[:4]) if not impl_out.startswith("EXC") else None

    def show(self, case):
        return {k: case[k] for k in ("s", "f", "cpr", "lic", "con", "t")}


class MergeOneCliStream(Stream):
    name = "mergeone-cli"
    rule = ("`reuse annotate --merge-copyrights` (click entry point, in process) run 5 times with identical arguments on a file without a "
            "header, exactly one --copyright: a bare holder with --year given once / twice the same / twice different / three times out of "
            "order / --exclude-year under each of the ten --copyright-prefix values, or a complete typed notice (prefix x year form as in "
            "`mergeone`); files of 10 types, with and without --multi-line / --force-dot-license / a custom template; oracle: tree bytes "
            "after runs 2..5 = after run 1, the holder stands once")

    YEARS = [[], ["2020"], ["2020", "2020"], ["2019", "2021"], ["2021", "2019"], ["2021", "1999", "2005"], ["2020", "2020", "2020"], "exclude"]
    NAMES = ["f.py", "f.c", "f.cpp", "f.html", "f.jl", "f.ml", "f.tex", "f.j2", "Makefile", "f.bat"]
    PREFIXES = ["spdx", "spdx-c", "spdx-string-c", "spdx-string", "spdx-string-symbol", "spdx-symbol", "string", "string-c", "string-symbol", "symbol"]

    def cases(self, tier, rng):
        thorough = tier == "thorough"
        combos = [(p, y) for p in [None] + self.PREFIXES for y in self.YEARS]
        if not thorough:
            combos = [(None, y) for y in self.YEARS] + rng.sample(combos, 16)
        for p, y in combos:
            h = rng.choice(MERGE_HOLDERS)
            argv = ["annotate", "--merge-copyrights", "--copyright", h]
            if y == "exclude":
                argv.append("--exclude-year")
            else:
                for v in y:
                    argv += ["--year", v]
            if p:
                argv += ["--copyright-prefix", p]
            yield self._finish(rng, argv, h)
        typed = [(p, y) for p in TYPED_PREFIXES for y in TYPED_YEARS]
        for p, y in (typed if thorough else rng.sample(typed, 24)):
            h = rng.choice(MERGE_HOLDERS)
            argv = ["annotate", "--merge-copyrights", "--copyright", "%s %s%s" % (p, (y + " ") if y else "", h)]
            if rng.random() < 0.3:
                argv += ["--year", "2018"]          # ignored for a complete notice
            yield self._finish(rng, argv, h)

    def _finish(self, rng, argv, holder):
        name = rng.choice(self.NAMES)
        if rng.random() < 0.7:
            argv += ["--license", "MIT"]
        r = rng.random()
        if r < 0.15:
            argv.append("--force-dot-license")
        elif r < 0.35 and name in ("f.c", "f.cpp", "f.html", "f.jl", "f.ml", "f.j2"):
            argv.append("--multi-line")
        tmpl = None
        if rng.random() < 0.15:
            tmpl = "adds-text"
            argv += ["--template", "mine"]
        return {"name": name, "argv": argv, "t": rng.choice(["", "x = 1\n", "#!/bin/sh\nx = 1\n", "x = 1\r\ny\r\n"]), "holder": holder, "tmpl": tmpl}

    def impl(self, case):
        from annotcorr import TEMPLATES
        with cli.scratch("rv-c10mc-") as root:
            files = {case["name"]: case["t"]}
            if case["tmpl"]:
                files[".reuse/templates/mine.jinja2"] = TEMPLATES[case["tmpl"]]
            cli.write_tree(root, files)
            snaps = []
            for _ in range(RUNS):
                code, out, exc = cli.run_cli(case["argv"] + [case["name"]], root)
                if exc is not None:
                    return "EXC:%s:%s" % (type(exc).__name__, str(exc)[:80])
                snap = cli.snapshot(root)
                snaps.append((code, sorted((k, v[0], v[1].decode("utf-8", "replace") if isinstance(v[1], bytes) else v[1])
                                           for k, v in snap.items() if not k.startswith(".reuse"))))
            return json.dumps(snaps)

    def oracle(self, case, impl_out):
        if impl_out.startswith("EXC"):
            return "cli-crash: " + impl_out
        snaps = json.loads(impl_out)
        first = snaps[0]
        for i, s in enumerate(snaps[1:], 2):
            if s != first:
                return "rerun-changes-tree: run %d left %r, run 1 left %r" % (i, s, first)
        if first[0] == 0:
            texts = "".join(v for k, kind, v in first[1] if kind == "file")
            if texts.count(case["holder"]) != 1:
                return "header-count: %r stands %d times in the tree after %d runs" % (case["holder"], texts.count(case["holder"]), RUNS)
        return None

    def classify(self, case, failure):
        notice = case["argv"][case["argv"].index("--copyright") + 1]
        return "c10-merge-doubled-blank-prefix" if failure.startswith("rerun-changes-tree") and doubled_blank_prefix(notice) else None

    def nontrivial(self, case, impl_out):
        return tuple(case["argv"]) if not impl_out.startswith("EXC") and json.loads(impl_out)[0][0] == 0 else None


STREAMS = [OpenerStream(), OpenerCliStream(), MergeOneStream(), MergeOneCliStream()]
