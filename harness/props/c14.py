"""C14 — results do not depend on scheduling, enumeration order, hash seed or root spelling.

Unit streams tie each model function of Model/Aggregate.lean to the real function it mirrors
(with the hidden order varied on the implementation side as well); the `runs` stream is the
part no theorem can carry: the real `reuse lint --json` / `reuse spdx` on generated projects
under every configuration, all normalised outputs of one tree must coincide.
"""
import itertools
import json
import os
import random
import subprocess
import sys
from types import SimpleNamespace

from core import Property, Stream, enc, dec, enc_list, dec_list, run_driver
import cli
import c14_runs as R
import c03  # tree generator, tokens and the independent covered-files specification

HASHSEEDS_QUICK = [1, 2, 3, 4, 5, 6]
HASHSEEDS_THOROUGH = [1, 2, 3, 4, 5, 6, 7, 8, 11, 13, 17, 23, 42, 99, 1000, 4242]


def show_s(l):
    return enc_list(sorted(l))


def show_p(pairs):
    pairs = sorted(pairs)
    return "~" if not pairs else ";".join(enc(k) + ">" + enc(v) for k, v in pairs)


# --------------------------------------------------------------------------
# aggregate: the loop of ProjectReport.generate


class AggregateStream(Stream):
    name = "aggregate"
    rule = ("random worker results (0-9 files over 12 paths: read error | licences, missing, bad drawn from 8 identifiers, "
            "copyright flag) and 0-5 LICENSES/ entries (known / unknown / deprecated): the real ProjectReport.generate fed the "
            "results in two different orders (and the licences dict in two orders) vs the model fed a third order vs an "
            "independent set computation; non-trivial = distinct normalised reports")
    PATHS = ["a.py", "b.c", "src/c.py", "src/d.h", "docs/e.md", "f.txt", "lib/g.ml", "lib/h.ml", "x/y/z.js", "é.txt", "b c.txt", "A.py"]
    IDS = ["MIT", "GPL-2.0+", "GPL-2.0", "Apache-2.0", "LicenseRef-x", "bad-id", "0BSD", "MIT+"]

    def cases(self, tier, rng):
        n = 3000 if tier == "thorough" else 400
        for _ in range(n):
            paths = rng.sample(self.PATHS, rng.randint(0, 9))
            results = []
            for p in paths:
                if rng.random() < 0.15:
                    results.append([p, True, False, [], [], []])
                else:
                    lic = [rng.choice(self.IDS) for _ in range(rng.choice([0, 1, 1, 2, 3]))]
                    results.append([p, False, rng.random() < 0.6, lic,
                                    sorted(set(x for x in lic if rng.random() < 0.4)),
                                    sorted(set(x for x in lic if rng.random() < 0.3))])
            ids = rng.sample(self.IDS, rng.randint(0, 5))
            lics = []
            for i in ids:
                known = rng.random() < 0.7
                lics.append([i, "LICENSES/%s.txt" % i, known, known and rng.random() < 0.3])
            yield {"results": results, "lics": lics, "s": rng.randrange(1 << 30)}

    def _real(self, case, order_seed):
        from pathlib import Path
        from reuse import report as rep
        rng = random.Random(order_seed)
        results = list(case["results"])
        lics = list(case["lics"])
        rng.shuffle(results)
        rng.shuffle(lics)
        objs = []
        for p, err, cpr, lic, miss, bad in results:
            if err:
                objs.append(rep._MultiprocessingResult(p, None, OSError("unreadable")))
            else:
                fr = rep.FileReport("./" + p, p, do_checksum=False)
                fr.chk_sum = "0" * 40
                fr.licenses_in_file = list(lic)
                fr.missing_licenses = set(miss)
                fr.bad_licenses = set(bad)
                fr.copyright = "SPDX-FileCopyrightText: 2020 Jane" if cpr else ""
                objs.append(rep._MultiprocessingResult(p, fr, None))
        project = SimpleNamespace(
            root=Path("."), licenses={i: Path(p) for i, p, k, d in lics}, licenses_without_extension={},
            license_map={i: {"isDeprecatedLicenseId": d} for i, p, k, d in lics if k})
        orig = rep._generate_file_reports
        rep._generate_file_reports = lambda *a, **kw: iter(objs)
        import logging
        logging.disable(logging.CRITICAL)
        try:
            r = rep.ProjectReport.generate(project, multiprocessing=False)
        finally:
            rep._generate_file_reports = orig
            logging.disable(logging.NOTSET)
        return "|".join([
            "rderr=" + show_s(str(x) for x in r.read_errors),
            "files=" + enc_list(sorted(str(f.path) for f in r.file_reports)),
            "missing=" + show_p((k, str(v)) for k, vs in r.missing_licenses.items() for v in vs),
            "bad=" + show_p((k, str(v)) for k, vs in r.bad_licenses.items() for v in vs),
            "deprecated=" + show_s(r.deprecated_licenses),
            "used=" + show_s(r.used_licenses), "unused=" + show_s(r.unused_licenses),
            "nolic=" + show_s(str(x) for x in r.files_without_licenses),
            "nocpr=" + show_s(str(x) for x in r.files_without_copyright),
            "total=%d" % len(r.file_reports), "compliant=%d" % (1 if r.is_compliant else 0)])

    def impl(self, case):
        a = self._real(case, case["s"])
        b = self._real(case, case["s"] + 1)
        return a if a == b else a + "||ORDER-DEPENDENT||" + b

    def model_lines(self, case):
        rng = random.Random(case["s"] + 2)
        results = list(case["results"])
        lics = list(case["lics"])
        rng.shuffle(results)
        rng.shuffle(lics)
        plus = lambda l: "+".join(enc(x) for x in l) if l else "~"
        rs = " ".join("%s:%d:%d:%s:%s:%s" % (enc(p), err, cpr, plus(lic), plus(miss), plus(bad))
                      for p, err, cpr, lic, miss, bad in results) or "~"
        ls = " ".join("%s:%s:%d:%d" % (enc(i), enc(p), k, d) for i, p, k, d in lics) or "~"
        return ["agg\t%s\t%s" % (ls, rs)]

    def oracle(self, case, impl_out):
        if "||ORDER-DEPENDENT||" in impl_out:
            return "aggregate-order-dependent: two orders of the same worker results give different reports: " + impl_out[:300]
        if impl_out.startswith("EXC"):
            return "aggregate-crash: " + impl_out
        ok = [r for r in case["results"] if not r[1]]
        used = {x for r in ok for x in r[3]}
        known = {i for i, p, k, d in case["lics"] if k}
        want = "|".join([
            "rderr=" + show_s(r[0] for r in case["results"] if r[1]),
            "files=" + show_s(r[0] for r in ok),
            "missing=" + show_p({(m, r[0]) for r in ok for m in r[4]}),
            "bad=" + show_p({(m, r[0]) for r in ok for m in r[5]} | {(i, p) for i, p, k, d in case["lics"] if not k}),
            "deprecated=" + show_s(i for i, p, k, d in case["lics"] if k and d),
            "used=" + show_s(used),
            "unused=" + show_s(i for i, p, k, d in case["lics"] if i not in used and (i if i.endswith("+") else i + "+") not in used),
            "nolic=" + show_s(r[0] for r in ok if not r[3]), "nocpr=" + show_s(r[0] for r in ok if not r[2])])
        if not impl_out.startswith(want + "|total=%d|" % len(ok)):
            return "aggregate-differs: report is not the set-wise function of the results: %s vs %s" % (impl_out[:200], want[:200])
        return None

    def show(self, case):
        return case


# --------------------------------------------------------------------------
# tomls: NestedReuseTOML._find_relevant_tomls


class TomlStream(Stream):
    name = "tomls"
    rule = ("subsets of up to 10 of 24 directories (root, siblings, chains to depth 4, names that sort differently by string and by tuple, names "
            "beginning with characters on either side of '.', '/' and 'R': `+vendor`, `#tmp`, ` spaced`, `-x/!y`, `src/+in`, `.dot`, `Zed`, `REUSE`, one-character names `+`, `-`) in random "
            "order x 12 paths x 3 root prefixes (relative, absolute, with '..'): the real _find_relevant_tomls in two orders vs the "
            "model in a third vs the oracle 'ancestor directories, topmost first'; non-trivial = at least two relevant tomls")
    DIRS = ["", "src", "src/deep", "src/deep/er", "src/deep/er/still", "src-x", "docs", "a", "a/b",
            # names on either side of '.', '/' and 'R' in code-point order
            "+vendor", "+vendor/in", "#tmp", " spaced", "-x", "-x/!y", "src/+in", "Zed", "REUSE", ".dot", "a/-b", "+", "-", "-/+", "a/+"]
    FILES = ["f.py", "src/f.py", "src/deep/f.py", "src/deep/er/f.py", "src/deep/er/still/f.py", "src-x/f.py", "docs/a/f.py",
             "a/f.py", "a/b/f.py", "a/b/c/f.py", "srcx/f.py", "src/deeper/f.py",
             "+vendor/f.py", "+vendor/in/f.py", "+vendor/in/deep/f.py", "#tmp/f.py", " spaced/f.py", "-x/f.py", "-x/!y/f.py", "src/+in/f.py",
             "Zed/f.py", "REUSE/f.py", ".dot/f.py", "a/-b/f.py", "+vendorx/f.py", "+/f.py", "-/f.py", "-/+/f.py", "a/+/f.py"]
    PREFIX = [".", "/abs/root", "../up/root"]

    def cases(self, tier, rng):
        n = 2500 if tier == "thorough" else 400
        for _ in range(n):
            dirs = rng.sample(self.DIRS, rng.randint(0, 9))
            if rng.random() < 0.7 and "" not in dirs:
                dirs.insert(rng.randrange(len(dirs) + 1), "")
            yield {"dirs": dirs, "path": rng.choice(self.FILES), "prefix": rng.choice(self.PREFIX), "s": rng.randrange(1 << 30)}

    def _real(self, case, dirs):
        from pathlib import PurePath
        from reuse.global_licensing import NestedReuseTOML, ReuseTOML
        pre = case["prefix"]
        tomls = [ReuseTOML(source=str(PurePath(pre) / d / "REUSE.toml"), version=1, annotations=[]) for d in dirs]
        nested = NestedReuseTOML(reuse_tomls=tomls, source=pre)
        found = nested._find_relevant_tomls(PurePath(pre) / case["path"])
        return ";".join(PurePath(t.source).parent.relative_to(pre).as_posix() for t in found)

    def impl(self, case):
        d1 = list(case["dirs"])
        d2 = list(case["dirs"])
        random.Random(case["s"]).shuffle(d2)
        a, b = self._real(case, d1), self._real(case, d2)
        return a if a == b else a + "||ORDER-DEPENDENT||" + b

    def _full(self, case, d):
        from pathlib import PurePath
        return "/".join(PurePath(case["prefix"], d).parts) if (d or case["prefix"] != ".") else ""

    def model_lines(self, case):
        d3 = list(case["dirs"])
        random.Random(case["s"] + 1).shuffle(d3)
        case["_d3"] = d3
        return ["tomls\t%s\t%s" % (enc_list(self._full(case, d) for d in d3), enc(self._full(case, case["path"])))]

    def model_out(self, case, outs):
        d3 = case["_d3"]
        return ";".join((d3[int(i)] or ".") for i in outs[0].split(",")) if outs[0] else ""

    def oracle(self, case, impl_out):
        if "||ORDER-DEPENDENT||" in impl_out:
            return "tomls-order-dependent: " + impl_out
        parts = case["path"].split("/")[:-1]
        anc = ["/".join(parts[:k]) for k in range(len(parts) + 1)]
        want = ";".join((a or ".") for a in anc if a in case["dirs"])
        if impl_out != want:
            return "tomls-differ: relevant REUSE.toml directories %r, expected the ancestors topmost first %r" % (impl_out, want)
        return None

    def nontrivial(self, case, impl_out):
        return impl_out if ";" in impl_out else None

    def show(self, case):
        return {k: v for k, v in case.items() if not k.startswith("_")}


# --------------------------------------------------------------------------
# licenses: Project._find_licenses under different glob orders


def spec_identifier(name, known):
    """identifier of a file in LICENSES/ as the documentation describes it: the name without its last extension when that is a
    known identifier or a LicenseRef; the whole name for an extension-less known identifier; otherwise the stem"""
    import re
    stem, dot, ext = name.rpartition(".")
    if not dot or not stem:
        stem = name
        has_ext = False
    else:
        has_ext = True
    if has_ext and (stem in known or re.match(r"LicenseRef-[a-zA-Z0-9-.]+$", stem)):
        return stem
    if not has_ext and name in known:
        return name
    return stem


class LicensesStream(Stream):
    name = "licenses"
    rule = ("LICENSES/ directories with 0-7 of 16 file names (known ids with and without extension, LicenseRef, unknown, two names "
            "resolving to one identifier, a sub-directory, .license companions): the real Project._find_licenses with glob handing "
            "out the files in 3 shuffled orders (and unshuffled) vs the model fed a reversed order vs the oracle (same dictionary or "
            "the duplicate error under every order); non-trivial = distinct outcomes with >= 2 entries or a duplicate")
    NAMES = ["MIT.txt", "MIT.md", "MIT", "GPL-3.0-or-later.txt", "LicenseRef-x.txt", "LicenseRef-x", "LicenseRef-x.y.txt", "foo.txt",
             "foo.md", "0BSD", "sub/Apache-2.0.txt", "Apache-2.0.txt", "MIT.txt.license", "CC0-1.0.txt", "bar", "LicenseRef-Unknown.txt"]

    def cases(self, tier, rng):
        for _ in range(800 if tier == "thorough" else 120):
            yield {"names": rng.sample(self.NAMES, rng.randint(0, 7)), "s": rng.randrange(1 << 30)}

    def _real(self, root):
        from reuse.project import Project
        try:
            proj = Project.from_directory(root)
        except RuntimeError:
            return "duplicate"
        return show_p((i, str(p)) for i, p in proj.licenses.items())

    def impl(self, case):
        import logging
        with cli.scratch("rv-c14l-") as root:
            cli.write_tree(root, {"LICENSES/" + n: "text\n" for n in case["names"]})
            cli.write_tree(root, {"a.py": "x\n"})
            logging.disable(logging.CRITICAL)
            try:
                base = self._real(root)
                for k in range(3):
                    with shuffled_fs(case["s"] + k):
                        got = self._real(root)
                    if got != base:
                        return base + "||ORDER-DEPENDENT||" + got
            finally:
                logging.disable(logging.NOTSET)
        return base

    def _known(self):
        from reuse._licenses import LICENSE_MAP, EXCEPTION_MAP
        return set(LICENSE_MAP) | set(EXCEPTION_MAP)

    def _pairs(self, case):
        known = self._known()
        return [("LICENSES/" + n, spec_identifier(n.split("/")[-1], known)) for n in case["names"] if not n.endswith(".license")]

    def model_lines(self, case):
        pairs = list(reversed(self._pairs(case)))
        return ["findlic\t" + (";".join(enc(p) + ">" + enc(i) for p, i in pairs) if pairs else "~")]

    def oracle(self, case, impl_out):
        if "||ORDER-DEPENDENT||" in impl_out:
            return "licenses-order-dependent: " + impl_out[:300]
        pairs = self._pairs(case)
        ids = [i for p, i in pairs]
        want = "duplicate" if len(set(ids)) != len(ids) else show_p((i, p) for p, i in pairs)
        if impl_out != want:
            return "licenses-differ: %s, expected %s" % (impl_out[:200], want[:200])
        return None

    def nontrivial(self, case, impl_out):
        return impl_out if impl_out == "duplicate" or ";" in impl_out else None


# --------------------------------------------------------------------------
# endpat: the END pattern under different hash seeds

_CHILD_END = r'''
import sys, json, logging
logging.disable(logging.CRITICAL)
from reuse.extract import extract_reuse_info
out = []
for s in json.load(sys.stdin):
    text = "SPDX-License-Identifier: MIT" + s + "\nSPDX-FileCopyrightText: 2020 Jane" + s + "\n"
    try:
        info = extract_reuse_info(text)
        out.append([sorted(str(e) for e in info.spdx_expressions), sorted(info.copyright_lines)])
    except Exception as e:
        out.append(["ERR:" + type(e).__name__, []])
json.dump(out, sys.stdout)
'''


class EndStream(Stream):
    name = "endpat"
    exhaustive = True
    rule = ("line ends built from every ordered pair (thorough: and every triple over the 11 literal terminators) of the 19 tokens "
            "= each comment terminator of the style table, instances of the three special endings (blank runs, slashes) and 6 "
            "near misses, plus random sequences up to length 4: the real extract_reuse_info in child interpreters under 6 "
            "(thorough 16) PYTHONHASHSEED values must read the licence tag and the copyright line identically under every "
            "seed (oracle), and read the bare value exactly when the model's END language contains the line end; "
            "non-trivial = line end in the END language made of at least two different terminators")
    TOKENS = ["*/", "-->", "#}", "*)", "--%>", "--}}", ":)", "=#", "}", "'/", "*#",
              '">', '" />', "'>", "' \t//>", "]::", "]  ::"]
    MISSES = ["x", "* /", "->", "]:", '"', "- ->"]

    def cases(self, tier, rng):
        toks = self.TOKENS + self.MISSES
        sufs = [""] + [t for t in toks]
        sufs += [a + b for a in toks for b in toks]
        if tier == "thorough":
            lits = self.TOKENS[:11]
            sufs += [a + b + c for a in lits for b in lits for c in lits]
        for _ in range(3000 if tier == "thorough" else 300):
            sufs.append("".join(rng.choice(toks) for _ in range(rng.randint(2, 4))))
        sufs = sorted(set(sufs))
        seeds = HASHSEEDS_THOROUGH if tier == "thorough" else HASHSEEDS_QUICK
        for i in range(0, len(sufs), 500):
            yield {"sufs": sufs[i:i + 500], "seeds": seeds}

    def impl(self, case):
        data = json.dumps([" " + s for s in case["sufs"]]).encode()
        procs = []
        for hs in case["seeds"]:
            env = dict(os.environ)
            env["PYTHONHASHSEED"] = str(hs)
            p = subprocess.Popen([R.PY, "-c", _CHILD_END], stdin=subprocess.PIPE, stdout=subprocess.PIPE,
                                 stderr=subprocess.DEVNULL, env=env)
            procs.append(p)
        outs = []
        for p in procs:
            o, _ = p.communicate(data)
            outs.append(json.loads(o))
        bits_l, bits_c, mixed = [], [], []
        for i, s in enumerate(case["sufs"]):
            per = [json.dumps(o[i]) for o in outs]
            if len(set(per)) > 1:
                a = per[0]
                j = next(k for k in range(len(per)) if per[k] != a)
                mixed.append("line end %r: PYTHONHASHSEED=%d reads %s, PYTHONHASHSEED=%d reads %s" % (
                    s, case["seeds"][0], a, case["seeds"][j], per[j]))
                bits_l.append("X")
                bits_c.append("X")
            else:
                bits_l.append("1" if outs[0][i][0] == ["MIT"] else "0")
                bits_c.append("1" if outs[0][i][1] == ["SPDX-FileCopyrightText: 2020 Jane"] else "0")
        return "".join(bits_l) + "/" + "".join(bits_c) + ("//" + " ## ".join(mixed[:5]) if mixed else "")

    def model_lines(self, case):
        return ["endmatch\t" + enc(s) for s in case["sufs"]]

    def model_out(self, case, outs):
        return "".join(outs) + "/" + "".join(outs)

    def oracle(self, case, impl_out):
        if "//" in impl_out:
            return "hash-seed-dependent: " + impl_out.split("//", 1)[1]
        return None

    def nontrivial(self, case, impl_out):
        bits = impl_out.split("/")[0]
        keys = []
        for s, b in zip(case["sufs"], bits):
            if b in "1X" and sum(1 for t in self.TOKENS[:11] if t in s) >= 2:
                keys.append(s)
        return tuple(keys) or None

    def show(self, case):
        return {"sufs": case["sufs"][:10], "n": len(case["sufs"]), "seeds": case["seeds"]}


# --------------------------------------------------------------------------
# walk: os.walk order


class _OsProxy:
    """`os` with a `walk` that hands out every listing in a shuffled order"""

    def __init__(self, rng):
        self._rng = rng

    def __getattr__(self, name):
        return getattr(os, name)

    def walk(self, top, *a, **kw):
        for r, d, f in os.walk(top, *a, **kw):
            self._rng.shuffle(d)
            self._rng.shuffle(f)
            yield r, d, f


class _GlobProxy:
    def __init__(self, rng):
        self._rng = rng

    def __getattr__(self, name):
        import glob
        return getattr(glob, name)

    def iglob(self, *a, **kw):
        import glob
        l = list(glob.iglob(*a, **kw))
        self._rng.shuffle(l)
        return iter(l)


class shuffled_fs:
    """context manager: reuse sees directory listings (os.walk, glob) in an order drawn from `seed`"""

    def __init__(self, seed):
        self.rng = random.Random(seed)

    def __enter__(self):
        from reuse import covered_files, project
        self.mods = (covered_files, project)
        self.saved = (covered_files.os, project.glob)
        covered_files.os = _OsProxy(self.rng)
        project.glob = _GlobProxy(self.rng)

    def __exit__(self, *exc):
        self.mods[0].os, self.mods[1].glob = self.saved


def link_equal_files(root):
    """make the non-empty regular files of equal content below root names of one inode (hard links) -> number of names linked"""
    first, n = {}, 0
    for dp, dn, fn in sorted(os.walk(root)):
        for f in sorted(fn):
            p = os.path.join(dp, f)
            if os.path.islink(p) or not os.path.isfile(p) or os.path.getsize(p) == 0:
                continue
            with open(p, "rb") as fp:
                content = fp.read()
            if content in first:
                os.unlink(p)
                os.link(first[content], p)
                n += 1
            else:
                first[content] = p
    return n


class WalkStream(Stream):
    name = "walk"
    rule = ("random directory trees of C03 (37 file names, 14 directory names on both sides of every rule, files / empty files / "
            "directories / symlinks, depth <=4; in every other tree the regular files of equal content are hard links of one inode, with a twin "
            "of equal size in the root and the directories below it) x four flag combinations, materialised in a directory named `proj` or `subprojects`: "
            "the real iter_files with os.walk handing out every listing in 3 shuffled orders (and unshuffled), and started from 6 "
            "spellings of the root (absolute, '.', './', '../<name>', '<name>/' from the parent, 'sub/..'), vs the model walk over "
            "the tree with every listing reversed vs the covered-files specification; non-trivial = distinct non-empty covered sets")
    ROOTS = ["proj", "subprojects"]

    def cases(self, tier, rng):
        for i in range(1200 if tier == "thorough" else 150):
            tree = c03.rand_tree(rng)
            case = {"tree": tree, "flags": rng.choice(["00", "01", "10", "11"]), "s": rng.randrange(1 << 30), "rootdir": self.ROOTS[i % 2]}
            if i % 2 == 0:
                # hard links: the regular files of equal content become names of one inode (two, three or more names in different
                # directories); to have some, a `twin` of equal size is put into the root and into every directory below it
                twin = (rng.choice(["twin.c", "LICENSE-twin", "twin.license", "a.py"]), ("f", rng.choice([1, 7, 30])))
                for name, node in [("", ("d", tree))] + [(n, nd) for n, nd in tree if nd[0] == "d"]:
                    if all(n != twin[0] for n, _ in node[1]) and rng.random() < 0.8:
                        node[1].append(twin)
                case["hardlinks"] = True
            yield case

    def impl(self, case):
        from pathlib import Path
        from reuse import covered_files as cf
        flags = case["flags"]
        name = case.get("rootdir", "proj")
        with cli.scratch("rv-c14w-") as base:
            root = os.path.join(base, name)
            os.makedirs(os.path.join(root))
            c03.materialise(root, case["tree"])
            if case.get("hardlinks"):
                link_equal_files(root)
            kw = dict(include_submodules=flags[0] == "1", include_meson_subprojects=flags[1] == "1")

            def walk(cwd, spelling):
                with cli.chdir(cwd):
                    return sorted(p.relative_to(Path(spelling)).as_posix() for p in cf.iter_files(spelling, **kw))
            got0 = walk(base, root)
            for k in range(3):
                with shuffled_fs(case["s"] + k):
                    got = walk(base, root)
                if got != got0:
                    return ";".join(got0) + "||ORDER-DEPENDENT||" + ";".join(got)
            sub = next((n for n, node in case["tree"] if node[0] == "d" and not os.path.islink(os.path.join(root, n))), None)
            confs = [(root, "."), (root, "./"), (root, "../" + name), (base, name + "/"), (base, "./" + name)]
            if sub is not None:
                confs.append((root, sub + "/.."))
            for cwd, sp in confs:
                got = walk(cwd, sp)
                if got != got0:
                    return ";".join(got0) + "||ROOT-SPELLING-DEPENDENT(%s)||" % sp + ";".join(got)
        return ";".join(got0)

    def model_lines(self, case):
        name = case.get("rootdir", "proj")
        return ["walkperm\trev\t%s0\t%s\t%s" % (case["flags"], enc("/x/" + name), " ".join(c03.tree_tokens(case["tree"])))]

    def model_out(self, case, outs):
        return ";".join(sorted(dec_list(outs[0])))

    def oracle(self, case, impl_out):
        if "||ORDER-DEPENDENT||" in impl_out:
            return "walk-order-dependent: " + impl_out[:400]
        if "||ROOT-SPELLING-DEPENDENT" in impl_out:
            return "walk-root-spelling-dependent: files from the absolute root || spelling || files from that spelling: " + impl_out[:500]
        want = ";".join(sorted(c03.spec_covered(case["tree"], case["flags"])))
        if impl_out != want:
            return "walk-differs: %s vs specification %s" % (impl_out[:200], want[:200])
        return None

    def nontrivial(self, case, impl_out):
        return impl_out or None


# --------------------------------------------------------------------------
# root: spellings of the root (pathlib's lexical algebra)


def spellings_of(target, cwd, rng):
    """strings that, for a process in `cwd`, denote the directory `target` (absolute, normalised)"""
    rel = os.path.relpath(target, cwd)
    out = [rel, "./" + rel, rel + "/", rel + "//", target, target + "/", target.replace("/", "/./", 1) if target != "/" else target,
           rel + "/x/..", rel + "/./", "x/../" + rel, target + "/y/../"]
    first = target.split("/")[1]
    out.append("/" + first + "/../" + target[1:])
    if rel == ".":
        out += ["", ".", "./", "./."]
    return out


class RootStream(Stream):
    name = "root"
    rule = ("4 project locations (one named `subprojects`) x 5 working directories (root, sub-directory, parent, sibling, unrelated) x "
            "12-16 spellings of the root (relative, './', trailing and doubled slashes, absolute, '/./', 'x/..' detours) x 6 "
            "project-relative paths: pathlib's parsing, `root / rel`, relative_from_root, os.path.normpath and the parent-name "
            "rule of is_path_ignored vs the model; oracle: every spelling names the same file by the same project-relative path; "
            "non-trivial = distinct (spelling, working directory) pairs")
    TARGETS = ["/home/u/proj", "/srv/subprojects", "/p", "/home/u/w/x/deep"]
    RELS = ["a.py", "src/a.py", "src/deep/b.c", "subprojects/x/y.c", "LICENSES/MIT.txt", "d/e/f/g.txt"]
    exhaustive = True

    def cases(self, tier, rng):
        for t in self.TARGETS:
            parent = os.path.dirname(t) or "/"
            cwds = [t, t + "/src", parent, os.path.join(parent, "sibling"), "/tmp/elsewhere"]
            variants = []
            for c in cwds:
                for s in spellings_of(t, c, rng):
                    if s.startswith("//") and not s.startswith("///"):
                        continue  # POSIX leaves exactly two leading slashes implementation-defined; pathlib keeps them apart
                    variants.append([c, s])
            for rel in self.RELS:
                yield {"target": t, "rel": rel, "variants": variants}

    @staticmethod
    def _one(cwd, spelling, rel):
        from pathlib import Path
        from reuse._util import relative_from_root
        root = Path(spelling)
        parts = [p for p in root.parts if p != root.anchor]
        full = root / rel
        try:
            r = "some:" + enc("/".join(full.relative_to(root).parts))
        except ValueError:
            r = "none"
        assert relative_from_root(full, root) == full.relative_to(root)
        pp = (root / "d").parent.parts
        parent_dir = pp[-1] if len(pp) > 0 else ""
        norm = lambda p: os.path.normpath(os.path.join(cwd, str(p))).lstrip("/")
        return "|".join(["1" if root.is_absolute() else "0", enc("/".join(parts)), enc(norm(root)), enc(norm(full)), r,
                         enc(parent_dir if parent_dir != "/" else "")])

    def impl(self, case):
        return "\n".join(self._one(c, s, case["rel"]) for c, s in case["variants"])

    def model_lines(self, case):
        return ["rootrel\t%s\t%s\t%s" % (enc(c.lstrip("/")), enc(s), enc(case["rel"])) for c, s in case["variants"]]

    def model_out(self, case, outs):
        return "\n".join(outs)

    def oracle(self, case, impl_out):
        want_file = enc((case["target"] + "/" + case["rel"]).lstrip("/"))
        want_rel = "some:" + enc(case["rel"])
        for (c, s), line in zip(case["variants"], impl_out.split("\n")):
            f = line.split("|")
            if f[3] != want_file or f[4] != want_rel:
                return "root-spelling-dependent: cwd %r --root %r names %r as %s / file %s" % (c, s, case["rel"], f[4], dec(f[3]))
        return None

    def nontrivial(self, case, impl_out):
        return (case["target"], case["rel"], len(set(map(tuple, case["variants"]))))

    def show(self, case):
        return {"target": case["target"], "rel": case["rel"], "variants": len(case["variants"])}


# --------------------------------------------------------------------------
# runs: the real commands under every configuration


class _PoolProxy:
    """`multiprocessing` whose Pool has `n` workers, hands every item to the workers one by one and returns the
    results in a shuffled order (the completion order of another schedule)."""

    def __init__(self, n, rng):
        self._n, self._rng = n, rng

    def __getattr__(self, name):
        import multiprocessing
        return getattr(multiprocessing, name)

    def Pool(self, *a, **kw):
        import multiprocessing
        outer = self
        pool = multiprocessing.Pool(self._n)

        class P:
            def __enter__(s):
                pool.__enter__()
                return s

            def __exit__(s, *e):
                return pool.__exit__(*e)

            def map(s, fn, it):
                res = list(pool.imap_unordered(fn, list(it), chunksize=1))
                outer._rng.shuffle(res)
                return res

            def join(s):
                pool.join()
        return P()


class patched_pool:
    def __init__(self, n, seed):
        self.n, self.rng = n, random.Random(seed)

    def __enter__(self):
        from reuse import report
        self.saved = report.mp
        report.mp = _PoolProxy(self.n, self.rng)

    def __exit__(self, *exc):
        from reuse import report
        report.mp = self.saved


def _git(args, cwd):
    return subprocess.run(["git"] + args, cwd=cwd, capture_output=True,
                          env={**os.environ, "GIT_CONFIG_GLOBAL": "/dev/null", "GIT_CONFIG_SYSTEM": "/dev/null",
                               "GIT_AUTHOR_NAME": "t", "GIT_AUTHOR_EMAIL": "t@e", "GIT_COMMITTER_NAME": "t", "GIT_COMMITTER_EMAIL": "t@e"})


def _diff(a, b):
    """short description of where two normalised outputs differ"""
    out = []
    for k in a:
        if a[k] == b.get(k):
            continue
        if k == "lint" and isinstance(a[k], dict) and isinstance(b[k], dict):
            fa = {f["path"]: f for f in a[k].get("files", [])}
            fb = {f["path"]: f for f in b[k].get("files", [])}
            only = sorted(set(fa) ^ set(fb))
            if only:
                out.append("lint.files only in one run: %s" % only[:4])
            for p in sorted(set(fa) & set(fb)):
                if fa[p] != fb[p]:
                    out.append("lint.files[%s]: %s  <>  %s" % (p, json.dumps(fa[p])[:160], json.dumps(fb[p])[:160]))
                    break
            for kk in a[k]:
                if kk != "files" and a[k][kk] != b[k].get(kk):
                    out.append("lint.%s: %s <> %s" % (kk, json.dumps(a[k][kk])[:120], json.dumps(b[k].get(kk))[:120]))
        elif k in ("spdx", "spdxc") and isinstance(a[k], list) and isinstance(b.get(k), list):
            # blocks of sorted lines: the lines that only one of the two documents has
            la = {l for blk in a[k] for l in blk}
            lb = {l for blk in b[k] for l in blk}
            out.append("%s: lines only in the reference run %s <> only in this run %s" % (k, json.dumps(sorted(la - lb)[:4])[:240], json.dumps(sorted(lb - la)[:4])[:240]))
        else:
            out.append("%s: %s <> %s" % (k, json.dumps(a[k])[:100], json.dumps(b.get(k))[:100]))
    return "; ".join(out[:3])


class RunsStream(Stream):
    name = "runs"
    rule = ("generated projects (REUSE.toml hierarchies with all three precedences, hierarchies of closest tables supplying one half each, .reuse/dep5, plain, a root directory itself named "
            "`subprojects`, a Git repository, a Git repository with one to three submodules (a `.git` file or an own repository + .gitmodules; top level and nested; with files lacking information, an own LICENSES/ and REUSE.toml) run without and with --include-submodules; headers in several comment styles incl. stacked terminators such as `MIT */-->`, "
            ".license sidecars of binaries, unparseable expressions, LICENSES/ with unused / deprecated / extension-less / bad "
            "entries, a top-level subprojects/x/; in every tree 1-2 files tagged `X+` and 1-2 tagged `X` (alone or inside OR / AND / parentheses) for one "
            "X of 7, LICENSES/ holding only X+.txt, only X.txt, both or neither in rotation; in every tree with REUSE.toml two to three "
            "directories whose names begin with a character on either side of `.`, `/` and `R` in code-point order (` spaced`, `!a`, `#tmp`, "
            "`(third-party)`, `+vendor`, `-x`; `.dot`, `0num`, `:c`, `@at`, `REUSE`, `Zed`, `~t`, non-ASCII; at top level, below `src/`, or "
            "nested in one another), each with an own REUSE.toml (a closest and an override table, resp. a closest half) whose licence "
            "conflicts with what the outer REUSE.toml says about the same files; in every tree a header, a .license sibling and a REUSE.toml list / "
            "dep5 Copyright field / C comment holding two or three notices equal up to letter case and runs of blanks (`2021 ACME Inc.` / `2021 Acme "
            "Inc.`, \u00df / SS) in one source; in two trees of three one or two files with two or three hard-linked names in different "
            "directories (one name of each inode with a .license sibling, names below directories with an own REUSE.toml) and now and then an "
            "inner REUSE.toml hard-linked into a second directory — every name must have its own report; in every other tree one to three special files — FIFO, UNIX socket, "
            "character device — among the covered files (root, src/, any directory of the tree) and now and then below subprojects/x/; every run "
            "through the worker pool, and every run on a tree with special files, is made in a forked child resp. a session of its own under a time "
            "limit of 120 s, after which the whole process group is killed and the outcome `no result after 120 s` is compared like any other "
            "— after the first such outcome the remaining pool runs of the check are not started): `lint --json`, `spdx`, `spdx --add-license-concluded` are run (a) serially, (b) with "
            "the real pool and with pools of 1, 3, 16 workers whose results come back in shuffled order, (c) with os.walk / glob "
            "handing out shuffled listings, (d) in child interpreters under 6 (thorough 16) PYTHONHASHSEED values and through "
            "`python -m reuse`, (e) from the root, a sub-directory, the parent and an unrelated directory, (f) with the root "
            "spelt relatively, absolutely, with a trailing slash, as ./x/../x and via sub/..; outputs are normalised (lists "
            "sorted, namespace uuid / timestamp / tool version dropped, printed paths mapped to the file they denote) and "
            "all runs of one tree must coincide; non-trivial = distinct trees with >= 5 files and a non-compliant verdict")
    KINDS = ["toml", "toml-partial", "dep5", "subprojects-root", "plain", "git", "git-submodule"]
    #: seconds after which a run (the three commands in a forked child, or one `python -m reuse …`) that has not come back is
    #: killed with its whole process group and counts as the outcome "no result after N s".  On these trees the three commands
    #: take a few tenths of a second together; the limit is some hundred times that, so that it does not fire on a loaded machine.
    LIMIT = 120

    def __init__(self):
        self._hung = None       # label of the first run of this check that never came back (later trees skip the pool runs)

    def cases(self, tier, rng):
        n = 35 if tier == "thorough" else 7
        for i in range(n):
            yield {"seed": rng.randrange(1 << 30), "kind": self.KINDS[i % len(self.KINDS)],
                   "seeds": HASHSEEDS_THOROUGH if tier == "thorough" else HASHSEEDS_QUICK,
                   "plus": R.PLUS_MODES[i % len(R.PLUS_MODES)],
                   # every other tree holds one to three special files (FIFO, socket, character device) among its covered files
                   "special": i % 2 == 0,
                   # hard links: one to two files with two or three names each (one name with a .license sibling), now and then a
                   # REUSE.toml linked into a second directory — in two trees of three, so that they meet every kind and both `special`
                   "links": i % 3 != 2}

    def impl(self, case):
        import logging
        name, files = R.gen_tree(case["seed"], case["kind"], case.get("plus"))
        diffs = []
        nconf = 0
        with cli.scratch("rv-c14-") as base:
            root = os.path.join(base, "outer", name)
            os.makedirs(root)
            links, link_files = R.gen_links(case["seed"], case["kind"], files) if case.get("links") else ([], {})
            cli.write_tree(root, files)
            cli.write_tree(root, link_files)
            R.make_links(root, links)
            other = os.path.join(base, "elsewhere")
            os.makedirs(other)
            submodules = R.gen_submodules(case["seed"]) if case["kind"] == "git-submodule" else []
            if case["kind"] in ("git", "git-submodule"):
                with open(os.path.join(root, ".gitignore"), "w") as fp:
                    fp.write("*.ign\n")
                cli.write_tree(root, {"src/junk.ign": "ignored\n"})
                _git(["init", "-q"], root)
                _git(["add", "-A"], root)
            if submodules:
                # as harness/props/c03.py does: a directory with a `.git` file (or an own repository) + an entry in .gitmodules
                with open(os.path.join(root, ".gitmodules"), "w") as fp:
                    for place, how, sfiles in submodules:
                        fp.write('[submodule "%s"]\n\tpath = %s\n\turl = https://example.com/%s.git\n' % (place, place, place.replace("/", "-")))
                for place, how, sfiles in submodules:
                    sroot = os.path.join(root, place)
                    os.makedirs(sroot, exist_ok=True)
                    cli.write_tree(sroot, sfiles)
                    if how == "nested-repo":
                        _git(["init", "-q"], sroot)
                    else:
                        with open(os.path.join(sroot, ".git"), "w") as fp:
                            fp.write("gitdir: %s\n" % os.path.relpath(os.path.join(root, ".git", "modules", place), sroot))
                _git(["add", ".gitmodules"], root)
            os.makedirs(os.path.join(root, "src"), exist_ok=True)
            specials = []
            if case.get("special"):
                specials = [(p, R.make_special(root, p, what), cov) for p, what, cov in R.gen_specials(case["seed"], case["kind"], files)]
            rr = os.path.realpath(root)
            logging.disable(logging.CRITICAL)
            try:
                serial = ["--no-multiprocessing"]
                import time
                limit = self.LIMIT
                skipped = []

                def three(label, cwd, ra, flags):
                    """the three commands; through the worker pool, and on a tree with special files, in a forked child under the
                    time limit: a run that never comes back is the outcome "no result after N s", compared like any other"""
                    if not specials and "--no-multiprocessing" in flags:
                        return R.run_three(cwd, ra, flags)
                    raw, timed_out = R.run_three_bounded(cwd, ra, flags, limit)
                    if timed_out and self._hung is None:
                        self._hung = label
                    return raw

                def pool_runs_allowed(label):
                    # after the first run that never came back the remaining pool runs of this check are not started (each would
                    # cost the full time limit); the violation is reported from the run that hung
                    if self._hung is not None:
                        skipped.append(label)
                        return False
                    return True

                base_raw = three("serial run in the root", root, None, serial)
                base_out = R.norm_all(base_raw, root, rr)
                if specials and isinstance(base_out["lint_exit"], str):
                    return json.dumps({"configs": 1, "files": -1, "compliant": None, "tracebacks": [], "diffs": [],
                                       "base_no_result": base_out["lint_exit"], "specials": specials})

                def check(label, raw, cwd):
                    nonlocal nconf
                    nconf += 1
                    got = R.norm_all(raw, cwd, rr)
                    if got != base_out:
                        diffs.append([label, _diff(base_out, got)])

                # (d) hash seeds — started first, collected last
                t_spawn = time.time()
                children = [(hs, R.spawn_seed(root, "-", serial, hs)) for hs in case["seeds"]]
                cli_children = [(hs, key, R.spawn_cli(root, args, hs)) for hs in case["seeds"][:2]
                                for key, args in (("lint", ["lint", "--json"]), ("spdx", ["spdx"]))] if pool_runs_allowed("python -m reuse") else []
                # (b) pools
                if pool_runs_allowed("pool:real"):
                    check("pool:real", three("pool:real", root, None, []), root)
                for n in (1, 3, 16):
                    if pool_runs_allowed("pool:%d-workers-shuffled" % n):
                        with patched_pool(n, case["seed"] + n):
                            check("pool:%d-workers-shuffled" % n, three("pool:%d-workers-shuffled" % n, root, None, []), root)
                # (c) listing order
                for k in range(3):
                    with shuffled_fs(case["seed"] + k):
                        check("listing-order:%d" % k, three("listing-order:%d" % k, root, None, serial), root)
                # (e), (f) working directories and spellings
                parent = os.path.dirname(root)
                sub = os.path.join(root, "src")
                confs = [("cwd=root --root .", root, "."), ("cwd=root --root ./", root, "./"),
                         ("cwd=root --root <abs>", root, root), ("cwd=root --root src/..", root, "src/.."),
                         ("cwd=sub --root ..", sub, ".."), ("cwd=sub --root <abs>", sub, root), ("cwd=sub --root ../", sub, "../"),
                         ("cwd=parent --root <name>", parent, name), ("cwd=parent --root <name>/", parent, name + "/"),
                         ("cwd=parent --root ./<name>/../<name>", parent, "./%s/../%s" % (name, name)),
                         ("cwd=elsewhere --root <abs>", other, root), ("cwd=elsewhere --root <abs>/", other, root + "/"),
                         ("cwd=elsewhere --root ../outer/<name>", other, "../outer/" + name)]
                if case["kind"] in ("git", "git-submodule"):
                    confs.append(("cwd=sub (git finds the root)", sub, None))
                for label, cwd, ra in confs:
                    check(label, three(label, cwd, ra, serial), cwd)
                if submodules:
                    # the same working directories and spellings once more with the submodules included: the reference is the run
                    # from the root with the same option
                    incl = serial + ["--include-submodules"]
                    base_incl = R.norm_all(three("serial run in the root --include-submodules", root, None, incl), root, rr)
                    deep = os.path.join(root, os.path.dirname(submodules[0][0]) or "docs")
                    os.makedirs(deep, exist_ok=True)
                    for label, cwd, ra in confs + [("cwd=the submodule's parent directory (git finds the root)", deep, None),
                                                   ("cwd=the submodule's parent directory --root <abs>", deep, root)]:
                        nconf += 1
                        got = R.norm_all(three(label + " --include-submodules", cwd, ra, incl), cwd, rr)
                        if got != base_incl:
                            diffs.append([label + " --include-submodules", _diff(base_incl, got)])
                    for label, cwd, ra in [("cwd=the submodule's parent directory (git finds the root)", deep, None),
                                           ("cwd=the submodule's parent directory --root <abs>", deep, root)]:
                        check(label, three(label, cwd, ra, serial), cwd)
                    if pool_runs_allowed("pool:3-workers-shuffled cwd=sub --root .. --include-submodules"):
                        with patched_pool(3, case["seed"]):
                            nconf += 1
                            got = R.norm_all(three("pool:3-workers-shuffled --include-submodules", sub, "..", ["--include-submodules"]), sub, rr)
                            if got != base_incl:
                                diffs.append(["pool:3-workers-shuffled cwd=sub --root .. --include-submodules", _diff(base_incl, got)])

                    def below(out):
                        fs = [f["path"] for f in out["lint"].get("files", [])] if isinstance(out["lint"], dict) else []
                        return sorted(f for f in fs if any(f == pl or f.startswith(pl + "/") for pl, _, _ in submodules))

                    truth = sorted(pl + "/" + f for pl, _, sf in submodules for f in sf
                                   if not f.startswith("LICENSES/") and not f.endswith("REUSE.toml"))
                    sub_truth = {"excluded": below(base_out), "included": below(base_incl), "expected": truth}
                # the children have been running since t_spawn; each gets what is left of the time limit (and a little on top)
                deadline = max(t_spawn + limit, time.time() + 15)
                for hs, p in children:
                    out = R.collect(p, deadline)
                    if out is None:
                        raw = R.no_result(limit)
                        self._hung = self._hung or "PYTHONHASHSEED=%d" % hs
                    else:
                        try:
                            raw = json.loads(out)
                        except Exception:
                            raw = {k: (99, "", "child failed") for k in ("lint", "spdx", "spdxc")}
                    check("PYTHONHASHSEED=%d" % hs, raw, root)
                for hs, key, p in cli_children:
                    out = R.collect(p, deadline)
                    nconf += 1
                    if out is None:
                        self._hung = self._hung or "python -m reuse %s" % key
                        diffs.append(["python -m reuse %s, PYTHONHASHSEED=%d" % (key, hs),
                                      "%s_exit: %s <> \"no result after %d s (process group killed)\"" % (key, base_out[key + "_exit"], limit)])
                        continue
                    out = out.decode("utf-8", "replace")
                    got = R.norm_lint(out, root, rr) if key == "lint" else R.norm_spdx(out)
                    if got != base_out[key] or (p.returncode != base_out[key + "_exit"]):
                        diffs.append(["python -m reuse %s, PYTHONHASHSEED=%d" % (key, hs),
                                      _diff({key: base_out[key]}, {key: got})])
            finally:
                logging.disable(logging.NOTSET)
        files_n = len(base_out["lint"].get("files", [])) if isinstance(base_out["lint"], dict) else -1
        extra = {}
        if specials:
            re_ = base_out["lint"].get("non_compliant", {}).get("read_errors", []) if isinstance(base_out["lint"], dict) else []
            extra = {"specials": specials, "special_read_errors": sorted(re_)}
        if skipped:
            extra["skipped_after_a_hang"] = skipped
        if links:
            reported = {f["path"] for f in base_out["lint"].get("files", [])} if isinstance(base_out["lint"], dict) else set()
            names = sorted({x for pair in links for x in pair if not x.endswith("REUSE.toml")} | {x for x in link_files if not x.endswith((".license", "REUSE.toml"))})
            extra["links"] = links
            extra["link_names_not_reported"] = [x for x in names if x not in reported]
        return json.dumps({"configs": nconf, "files": files_n, "compliant": base_out["lint"].get("summary", {}).get("compliant"),
                           "tracebacks": base_out["tracebacks"], "diffs": diffs, **({"submodules": sub_truth} if submodules else {}), **extra})

    def oracle(self, case, impl_out):
        if impl_out.startswith("EXC"):
            return "runs-crash: " + impl_out
        r = json.loads(impl_out)
        if r.get("base_no_result"):
            return "runs-no-result: the serial run in the root: %s (special files %s)" % (r["base_no_result"], r.get("specials"))
        if r["tracebacks"]:
            return "runs-traceback: " + "; ".join(r["tracebacks"])[:300]
        sm = r.get("submodules")
        if sm is not None:
            # generator ground truth: the files of a submodule are counted exactly when --include-submodules is given
            if sm["excluded"]:
                return "submodule-files-counted: without --include-submodules the run from the root lists %s" % sm["excluded"][:4]
            if sm["included"] != sm["expected"]:
                return "submodule-files-missing: with --include-submodules the run from the root lists %s, the submodules hold %s" % (
                    sm["included"][:6], sm["expected"][:6])
        if r.get("link_names_not_reported"):
            # generator ground truth: every name of a hard-linked inode is a regular file, not ignored: a covered file with a report
            return "hard-link-not-reported: %s have no file report in the serial run from the root (hard links %s)" % (
                r["link_names_not_reported"], r["links"])
        if r["diffs"]:
            kinds = sorted({d[0].split("=")[0].split(":")[0].split(" ")[0] for d in r["diffs"]})
            return "result-differs(%s): %d of %d configurations differ from the serial run in the root; %s" % (
                ",".join(kinds), len(r["diffs"]), r["configs"], " | ".join("%s: %s" % (l, d) for l, d in r["diffs"][:3]))
        return None

    def nontrivial(self, case, impl_out):
        if impl_out.startswith("EXC"):
            return None
        r = json.loads(impl_out)
        return (case["seed"], case["kind"]) if r["files"] >= 5 and r["compliant"] is False else None

    def show(self, case):
        name, files = R.gen_tree(case["seed"], case["kind"], case.get("plus"))
        return {"seed": case["seed"], "kind": case["kind"], "plus": case.get("plus"), "root_name": name, "files": sorted(files)[:60],
                "special_files": R.gen_specials(case["seed"], case["kind"], files) if case.get("special") else [],
                "hard_links": R.gen_links(case["seed"], case["kind"], files)[0] if case.get("links") else []}


def table_roundtrip():
    """the generated END alternatives against the live pattern text: same count, and the shape flag"""
    import gen_tables
    import importlib.util
    spec = importlib.util.spec_from_file_location(
        "gens_endpattern", os.path.join(os.path.dirname(os.path.abspath(gen_tables.__file__)), "gens", "endpattern.py"))
    endpattern = importlib.util.module_from_spec(spec)
    spec.loader.exec_module(endpattern)
    shape, alts = endpattern.end_alternatives()
    # independent count: split the pattern *text* on top-level, unescaped '|' (shape 1) or on ')*(?:' (shape 0)
    from reuse import extract
    text = extract._END_PATTERN
    want = None
    if text.startswith("(?:") and text.endswith(")*$"):
        inner = text[3:-3]
        depth, n, i, in_cls = 0, 1, 0, False
        while i < len(inner):
            c = inner[i]
            if c == "\\":
                i += 2
                continue
            if in_cls:
                in_cls = c != "]"
            elif c == "[":
                in_cls = True
            elif c == "(":
                depth += 1
            elif c == ")":
                depth -= 1
                if depth < 0:       # shape 0: ')*(?:' closes one starred alternative and opens the next
                    n += 1
                    depth = 0
                    i += len(")*(?:") - 1
            elif c == "|" and depth == 0:
                n += 1
            i += 1
        want = n
    if want is not None and len(alts) != want:
        return "generated END table has %d alternatives, the pattern text has %d" % (len(alts), want)
    got = run_driver(["endshape"])[0]
    if got != str(shape):
        return "generated END shape %s, driver says %s" % (shape, got)
    return ""


import c14s17     # noqa: E402

PROPERTY = Property(
    pid="C14",
    streams=[AggregateStream(), TomlStream(), LicensesStream(), WalkStream(), RootStream(), EndStream()] + c14s17.STREAMS + [RunsStream()],
    table_roundtrip=table_roundtrip,
    assumptions=[
        "which process handles which file, fork/pickle, the per-worker re-parse of .reuse/dep5 and PYTHONHASHSEED itself are run-time "
        "facts no theorem carries: they are covered by the `runs` and `endpat` streams (real pools, shuffled completion order, child "
        "interpreters under different hash seeds) on the explored trees only",
        "the walk yields every path once (C03), so worker results have distinct paths; FileReport objects are compared by identity in "
        "Python and by value in the model",
        "paths printed by lint (offender lists) are relative to the working directory of the run resp. absolute when the root was given "
        "absolutely: they are compared by the file they denote (resolved against that run's working directory), not by spelling",
        "no symbolic links on the way to the root (`x/..` detours are collapsed lexically); a root of '/' and a spelling with exactly two "
        "leading slashes are outside the root stream",
        "C14_tomls_perm assumes at most one REUSE.toml per directory (always true on a file system)",
        "the order of a file's own entries inside `files[].copyrights` / `spdx_expressions` (set iteration) is 'ordering of entries' and is sorted away",
    ],
)
