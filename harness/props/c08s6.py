"""C08, one more region of the input space: characters that `str.splitlines` takes for line boundaries but that are not line
endings of a file (form feed, vertical tab, FS / GS / RS, NEL, LINE / PARAGRAPH SEPARATOR) — and US, which is white space but no
boundary — standing in the *body* of a file: alone on a line (the ^L page breaks of GNU-style C, Emacs Lisp, PEP 8), at the end
of a code line, inside a string literal, inside a comment of the file's own style, as the last character of a file without final
newline; above and below an existing header, never inside the first line or the header block nor on the lines next to it (there
the tool's notion of a line and the property's differ: documented boundary).  LF, CRLF and CR files.

`exotic`     — add_header_to_file, bytes in / bytes out, every style, both modes; the model is compared; oracle c08.judge in full.
`exotic-cli` — the real command line on files whose first such character comes after the 512 bytes binaryornot looks at (and, at
               a low rate, within them: then the header may go to FILE.license and the file must be byte-identical).
"""
import os

from core import Stream, enc, dec
import cli
import annotcorr
from annotcorr import all_styles, style_by_name, rand_info
import c08 as base

#: str.splitlines boundaries other than \n, \r — and \x1f (white space for str.strip, no boundary)
BREAKS = ["\x0c", "\x0b", "\x1c", "\x1d", "\x1e", "\x85", "\u2028", "\u2029", "\x1f"]
PLAIN = ["import os", "x = 1", "    y = compute(x)", "def f(a, b):", "        return a + b", "value = [1, 2, 3]", "if x: pass", "text with éü张", "\ttabbed = True"]
OLD = ["SPDX-FileCopyrightText: 2017 Prev Holder\n\nSPDX-License-Identifier: ISC", "SPDX-License-Identifier: Zlib", "SPDX-FileCopyrightText: 2016 Someone"]


def own_comment(st, s):
    if st.SINGLE_LINE:
        return st.SINGLE_LINE + st.INDENT_AFTER_SINGLE + s
    return st.MULTI_LINE.start + " " + s + " " + st.MULTI_LINE.end


def marked_lines(rng, st, ch):
    """lines (without line ending) that hold the character `ch` the way sources do"""
    return [ch,                                                   # a page break on a line of its own
            "x = 1" + ch,                                         # at the end of a code line
            "s = 'left%sright'" % ch,                              # inside a string literal
            "return text.split('%s')" % ch,
            own_comment(st, "page%sbreak" % ch),                   # inside a comment of the file's own style
            "a = 1;%sb = 2" % ch,                                  # between two statements
            ch + ch]


def exotic_body(rng, st, le, head_room=0):
    """(text, how) — a file body with such characters away from the first line and from the header block.
    `head_room`: at least that many bytes of plain text stand in front of the first of them."""
    lines = []
    shebang = st.SHEBANGS[0] + " first" if st.SHEBANGS and rng.random() < 0.3 else None
    if shebang:
        lines += [shebang, ""]
    where = rng.choice(["none", "none", "top", "top", "middle", "end"])
    block = st.create_comment(rng.choice(OLD), force_multi=rng.random() < 0.3 and st.can_handle_multi()).split("\n")
    plain = lambda k: [rng.choice(PLAIN) for _ in range(k)]      # noqa: E731
    chars = [rng.choice(BREAKS)] if rng.random() < 0.5 else rng.sample(BREAKS, rng.randint(2, 4))

    def region():
        out = plain(rng.randint(1, 3))
        for ch in chars:
            out += rng.sample(marked_lines(rng, st, ch), rng.randint(1, 3)) + plain(rng.randint(1, 2))
        return out
    def padded(front):
        pad = []
        while sum(len(x.encode("utf-8")) + 2 for x in front + pad) < head_room:
            pad += plain(1)
        return pad
    if where in ("top", "none"):
        lines += (block + [""] if where == "top" else []) + plain(1)
        lines += padded(lines) + region()
    else:
        lines += plain(1)
        lines += padded(lines) + region() + plain(1) + [""] + block
        if where == "middle":
            lines += [""] + plain(1) + region()
        elif rng.random() < 0.5:
            lines += [""] + plain(2)
    final = rng.choice(["nl", "nl", "nl", "none", "char"])
    text = "\n".join(lines)
    if final == "nl":
        text += "\n"
    elif final == "char" and where != "end" and lines[-1] != "":
        text += rng.choice(chars)                               # the file ends with the character, no final newline
    return text.replace("\n", le), "%s/%s/%s" % (where, final, "".join("%02x" % ord(c) for c in chars))


class ExoticBreaksStream(base.C08Stream):
    name = "exotic"
    rule = ("add_header_to_file on scratch files, bytes in / bytes out: every style of the table x {replace, --no-replace} x {single, forced "
            "multi-line} x LF / CRLF / CR x bodies holding form feed, vertical tab, FS, GS, RS, US, NEL, U+2028, U+2029 (1-4 kinds per file) "
            "alone on a line, at the end of a code line, inside a string literal, inside an own-style comment, between statements, doubled, "
            "as the last character of a file without final newline — above and / or below an existing own-style header (top, middle, end, "
            "absent), shebang or none; never in the first line, the header block or the lines next to it; model = Model.annotateFile; "
            "oracle = c08.judge in full (every such character is kept where it was); non-trivial = distinct (style, placement, characters)")

    def cases(self, tier, rng):
        k = 40 if tier == "thorough" else 5
        out = []
        for st in all_styles():
            if st.__name__ in ("UncommentableCommentStyle", "EmptyCommentStyle"):
                continue
            for i in range(k):
                le = ["\n", "\r\n", "\r"][i % 3] if i < 3 else rng.choice(["\n", "\n", "\r\n", "\r"])
                t, how = exotic_body(rng, st, le)
                cpr, lic, con = rand_info(rng)
                force = "1" if (st.can_handle_multi() and rng.random() < 0.3) else "0"
                out.append({"s": st.__name__, "f": "0" + force + "0" + rng.choice("110") + "0", "tmpl": "default", "cpr": cpr, "lic": lic, "con": con,
                            "t": t, "how": how, "le": le})
        return base.attach_bad(out)

    def impl(self, case):
        return annotcorr.run_annotate(case)

    def model_lines(self, case):
        return [base.model_line(case)]

    def nontrivial(self, case, impl_out):
        return (case["s"], case["f"], case["how"], case["le"]) if impl_out.startswith("W:") else None


class ExoticCliStream(base.C08Stream):
    name = "exotic-cli"
    rule = ("`reuse annotate` (click entry point, in process) on scratch files of 17 types holding the characters of stream `exotic`, the first "
            "of them after at least 600 bytes of plain text (3 in 4) or anywhere (1 in 4; binaryornot may then call the file binary), LF / "
            "CRLF / CR, with --no-replace / --multi-line at random; oracle: c08.judge on the bytes of the file; when the header went to "
            "FILE.license instead the file must be byte-identical")

    def cases(self, tier, rng):
        from reuse.comment import EXTENSION_COMMENT_STYLE_MAP_LOWERCASE as EXT
        k = 300 if tier == "thorough" else 45
        for i in range(k):
            ext = base.CliStream.EXTS[i % len(base.CliStream.EXTS)]
            st = EXT[ext]
            le = rng.choice(["\n", "\n", "\r\n", "\r"])
            room = 600 if rng.random() < 0.75 else 0
            t, how = exotic_body(rng, st, le, head_room=room)
            argv = ["annotate", "--copyright", "Jane Doe", "--license", rng.choice(["MIT", "0BSD"]), "--year", "2020"]
            rep = True
            if rng.random() < 0.35:
                argv.append("--no-replace")
                rep = False
            multi = False
            if st.can_handle_multi() and rng.random() < 0.3:
                argv.append("--multi-line")
                multi = True
            yield {"s": st.__name__, "ext": ext, "argv": argv, "t": t, "f": "0" + ("1" if multi else "0") + "0" + ("1" if rep else "0") + "0",
                   "cpr": ["Jane Doe"], "lic": [argv[4]], "con": [], "how": how, "le": le, "room": room}

    def impl(self, case):
        with cli.scratch("rv-c08x-") as root:
            name = "f" + case["ext"]
            cli.write_tree(root, {name: case["t"]})
            code, out, exc = cli.run_cli(case["argv"] + [name], root)
            with open(os.path.join(root, name), "r", encoding="utf-8", newline="") as fp:
                after = fp.read()
            extra = sorted(set(os.listdir(root)) - {name})
            if exc is not None:
                return "EXC:%s" % type(exc).__name__
            if extra == [name + ".license"]:
                return "DOT:" + ("same" if after == case["t"] else enc(after))
            if extra:
                return "EXTRA:%r" % extra
            if code != 0:
                return "F:%d" % code if after == case["t"] else "F-CHANGED:" + enc(after)
            return "W:" + enc(after)

    def oracle(self, case, impl_out):
        if impl_out.startswith(("EXC", "EXTRA", "F-CHANGED")):
            return "cli: " + impl_out[:80]
        if impl_out.startswith("DOT:"):
            if impl_out != "DOT:same":
                return "not-only-header: the header went to FILE.license, yet the file itself was rewritten: %r" % dec(impl_out[4:])[:200]
            return None
        return base.C08Stream.oracle(self, case, impl_out)

    def nontrivial(self, case, impl_out):
        return (case["s"], case["f"], case["how"], case["le"], impl_out[:3]) if impl_out.startswith(("W:", "DOT")) else None


STREAMS = [ExoticBreaksStream(), ExoticCliStream()]
