"""C06 — licence inventory: missing, unused, bad, deprecated and extension-less licences."""
import json

from core import Property, Stream
import reports_common as rc

CATS = ("missing", "unused", "bad", "deprecated", "noext", "used")


def c06_view(case, rep):
    """the part of a report C06 speaks about; an extension-less LICENSES/LicenseRef-x is outside C06's text
    (it says 'whose whole name is an SPDX identifier'), so it is not demanded here (C01 (c) demands it)"""
    v = {c: rep[c] for c in CATS}
    v["noext"] = [x for x in v["noext"] if not rc.is_licref(x)]
    return v


class InventoryOracle(rc.ReportStream):
    def oracle(self, case, impl_out):
        if impl_out.startswith("EXC"):
            return "crash: " + impl_out
        got = c06_view(case, json.loads(impl_out))
        exp = c06_view(case, rc.expected(case))
        return rc.diff_kind(case, got, exp, CATS)


class ProductStream(InventoryOracle, Stream):
    name = "product"
    rule = ("identifier class (current, deprecated, exception, LicenseRef-, unknown, wrong case, ill-formed LicenseRef- look-alike: "
            "underscore, non-ASCII letters / digits, colon, empty tail) x way of use (alone, '+', AND, OR, "
            "WITH, nested parentheses, two tags, .license, REUSE.toml, dep5, not used) x way of provision (absent, ID.txt, ID.md, ID, "
            "sub-directory, ID+.txt, ID.txt with .license companion, only a differently named relative: ID-or-later.txt, ID-only.txt; and reached "
            "through a symbolic link: the entry itself a link to a regular file (another text of LICENSES/, a file elsewhere in the project, a hidden store "
            "below LICENSES/, a file outside the project, a link to a link), the entry below a sub-directory that is a link to a directory (a LICENSES/ "
            "directory elsewhere in the project, below .reuse/, a hidden directory, outside the project), below a LICENSES that is itself a link, or "
            "only a dangling link of that name = not provided; quick: 13 link modes x 3 cells + every class x use once with a random mode, thorough: "
            "every class x use x mode): "
            "every cell once with identifiers drawn without replacement "
            "(thorough: every identifier of the bundled lists at least twice more), plus the identifiers whose stem is an identifier, "
            "the LicenseRef-*Unknown* family, look-alikes that can only be file names (`LicenseRef-a~b`, blanks, `@`), and the GNU "
            "families (every X with X-only and X-or-later on the list): used spelling {X, X-only, X-or-later} x {plain, '+'} x provided "
            "spelling {X, X+, X-only, X-or-later} (quick: 90 of the combinations, thorough: all); real `reuse lint --json` on the generated tree vs the model fed from the generator's "
            "records; oracle = the set definitions of the property text; non-trivial = distinct reports")

    def cases(self, tier, rng):
        for c in rc.product_cases(tier, rng):
            if rc.dup_free(c):
                yield c


class TreeStream(InventoryOracle, Stream):
    name = "trees"
    rule = ("compliant-by-construction trees (1-6 files, headers in 7 comment styles, .license siblings, binaries, REUSE.toml incl. "
            "aggregate precedence, REUSE.toml hierarchies, dep5 with wildcard paragraphs, sub-directories of LICENSES/, .license companions, in three trees of ten licence "
            "texts reached through symbolic links to files and to directories (inside LICENSES/, elsewhere in the project, outside it) and dangling links, "
            "covered files in directories named like exempt ones (`.github`, `x.git`, `OLD-LICENSES`), non-covered material, some in a Git "
            "repository with ignored files / directories and covered files named alike) with 0-5 injected defects of 22 kinds; licence categories of the real report vs model vs property definitions")

    def cases(self, tier, rng):
        k = 0
        for c in rc.tree_cases(tier, rng):
            if rc.dup_free(c):
                k += 1
                if k % 40 == 0:
                    c["mp"] = True
                yield c


PROPERTY = Property(
    pid="C06",
    streams=[ProductStream(), TreeStream()],
    table_roundtrip=rc.table_roundtrip,
    assumptions=[
        "the model receives, per covered file, the identifiers of each licence expression as the generator's own tree traversal gives them; "
        "license-expression's parser and `license_keys`, tag extraction, REUSE.toml / dep5 lookup and the covered-file walk are exercised "
        "end to end by the streams, not modelled here",
        "theorems carry plainNames: a LICENSES/ entry named by a listed identifier X.Y whose stem X is itself an identifier "
        "(OLDAP-2.0.1, OLDAP-2.2.1, OLDAP-2.2.2, Python-2.0.1) is excluded (known finding), as is the `LicenseRef-.ext` shape",
        "two LICENSES/ entries resolving to one identifier make the tool stop with an error (model: none); not generated here (C16)",
        "symbolic links below LICENSES/: a link that resolves to a regular file is a licence text named by the link's own name; licence texts "
        "below a sub-directory that is a link to a directory count like those of any sub-directory ('licence texts in subdirectories of LICENSES/ "
        "count'); a dangling link is no licence text; links that form a loop, or that make one text appear under two names with one identifier, are not generated",
        "pathlib's name/stem/suffix and the LicenseRef- pattern are mirrored lexically and compared with CPython on every run (table round-trip)",
    ],
)
