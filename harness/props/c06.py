"""C06 — licence inventory: missing, unused, bad, deprecated and extension-less licences."""
import json
import random

from core import Property, Stream
import reports_common as rc

CATS = ("missing", "unused", "bad", "deprecated", "noext", "used")


def c06_view(case, rep):
    """the part of a report C06 speaks about; an extension-less LICENSES/LicenseRef-x is outside C06's text
    (it says 'whose whole name is an SPDX identifier'), so it is not demanded here (C01 (c) demands it)"""
    v = {c: rep[c] for c in CATS}
    v["noext"] = [x for x in v["noext"] if not rc.is_licref(x)]
    return v


class InventoryOracle(rc.ReportStream):
    def oracle(self, case, impl_out):
        if impl_out.startswith("EXC"):
            return "crash: " + impl_out
        got = c06_view(case, json.loads(impl_out))
        exp = c06_view(case, rc.expected(case))
        return rc.diff_kind(case, got, exp, CATS)


BOTH_LAYOUTS = ["one-expression", "two-tags", "two-files", "many-files", "mixed-sources"]
BOTH_PROVISIONS = ["neither", "plain-only", "plus-only", "both", "plus-only.md", "plus-only-subdir", "plain-only-noext"]


def both_spellings_case(rng, cls, x, layout, prov):
    """`X` and `X+` are both used in one project (candidate sets {X} and {X+, X}), LICENSES/ provides X.*, X+.*, both or neither:
    every occurrence is judged on its own, whatever was judged before it in the same process"""
    K, xp = rc.K, rc.plus(x)
    filler = "ISC" if x not in ("ISC",) else "0BSD"
    files = [rc.mkfile("filler.py", [K(filler)])]
    lic = [filler + ".txt"]
    glob = "none"
    pair = [x, xp]
    if rng.random() < 0.5:
        pair.reverse()
    if layout == "one-expression":
        op = rng.choice(["AND", "OR"])
        e = [op, K(pair[0]), K(pair[1])]
        if rng.random() < 0.4:
            e = [rng.choice(["AND", "OR"]), K(filler), e] if rng.random() < 0.5 else [rng.choice(["AND", "OR"]), e, K(filler)]
        files.append(rc.mkfile("subject.py", [e]))
    elif layout == "two-tags":
        files.append(rc.mkfile("subject.sql", [K(pair[0]), K(pair[1])], style="sql"))
    elif layout == "two-files":
        # the walk hands the files out in directory order, which is not the generator's to choose: names on both sides of each other
        a, b = rng.choice([("a.py", "z.py"), ("z.py", "a.py"), ("src/m.py", "lib/m.py"), ("m.py", "src/deep/m.py"), ("0/x.py", "x.py")])
        files.append(rc.mkfile(a, [K(pair[0])]))
        files.append(rc.mkfile(b, [K(pair[1])]))
    elif layout == "many-files":
        names = ["a.py", "b/c.py", "d.py", "e/f/g.py", "h.py", "zz.py", "0.py", "m/n.py"]
        rng.shuffle(names)
        for i, n in enumerate(names[:rng.randint(3, 6)]):
            t = pair[i % 2]
            files.append(rc.mkfile(n, [K(t) if rng.random() < 0.6 else [rng.choice(["AND", "OR"]), K(filler), K(t)]]))
    else:
        glob = "toml"
        files.append(rc.mkfile("dir/subject.txt", [K(pair[0])], how="global", style="txt"))
        files.append(rc.mkfile("logo.png", [K(pair[1])], how="dotlicense", kind="binary"))
        if rng.random() < 0.5:
            files.append(rc.mkfile("third.c", [K(rng.choice(pair))], style="c"))
    lic += {"neither": [], "plain-only": [x + ".txt"], "plus-only": [xp + ".txt"], "both": [x + ".txt", xp + ".txt"],
            "plus-only.md": [xp + ".md"], "plus-only-subdir": ["sub/dir/" + xp + ".txt"], "plain-only-noext": [x]}[prov]
    return {"files": files, "lic": lic, "glob": glob, "cell": [cls, x, "both-spellings:" + layout, prov]}


def both_spellings_cases(tier, rng):
    cl = rc.id_classes()
    t = rc.table()
    # identifiers whose `X+` is itself on the list (GPL-2.0+ …) and identifiers whose `X+` is only a spelling (Apache-1.0+, MIT+)
    listed_plus = sorted(x for x in t if x + "+" in t)
    for cls in ("current", "deprecated", "licref", "unknown", "listed-plus"):
        pool = listed_plus if cls == "listed-plus" else sorted(x for x in cl.get(cls, []) if not x.endswith("+"))
        if not pool:
            continue
        for layout in BOTH_LAYOUTS:
            for prov in BOTH_PROVISIONS:
                for _ in range(3 if tier == "thorough" else 1):
                    yield both_spellings_case(rng, cls, rng.choice(pool), layout, prov)


IGNORED_EXTS = [".bak", ".orig", ".html", ".txt~", ".md", ".tmp", ".rej"]


def ignored_text_case(rng, cls, x, use):
    """a Git repository whose ignore rules match licence texts below LICENSES/ (untracked, beside tracked ones — Git lists nothing
    inside a wholly untracked directory): the property's inventory speaks of the files in LICENSES/, not of the VCS, so an
    ignored text provides its identifier / is unused / bad / deprecated like any other"""
    c = rc.product_case(cls, x, use, "absent")
    filler = c["lic"][0][:-4]
    ext = rng.choice(IGNORED_EXTS)
    sub = rng.choice(["", "", "sub/", "third party/x/"])
    names = []
    if rng.random() < 0.8:
        names.append(sub + (rc.plus(x) if use == "plus" and rng.random() < 0.3 else x) + ext)      # the subject's own text
    t = rc.table()
    others = sorted(i for i in t if i not in (x, filler, "MIT") and not i.endswith("+") and "." not in i)
    r = rng.random()
    if r < 0.35:
        names.append(sub + rng.choice(others) + ext)                                                    # one nobody uses
    elif r < 0.55:
        names.append(sub + rng.choice(["notes", "README", "LicenseRef-vendor", "licence text", "x_y"]) + ext)  # a name that is no identifier (or a LicenseRef-)
    elif r < 0.7:
        names.append(sub + rng.choice(sorted(i for i in others if t[i])) + ext)                         # a deprecated one
    if not names:
        names.append(sub + x + ext)
    c["lic"] += names
    where = rng.choice(["root", "root", "LICENSES"])
    style = rng.choice(["ext", "ext", "exact", "dir"] if sub else ["ext", "ext", "exact"])
    if style == "ext":
        pats = ["*" + ext]
    elif style == "exact":
        pats = [("/LICENSES/" if where == "root" else "/") + n.replace(" ", "\\ ") for n in names]
    else:
        d = sub.split("/")[0].replace(" ", "\\ ")
        pats = [("/LICENSES/" if where == "root" else "/") + d + "/"]
        # Git does not descend into an ignored directory; one tracked file inside is not possible then: all texts there are ignored
    c.update(git=True, gitadd=True, gitignore_lic=filler, licignore={"pats": pats, "where": where})
    c["cell"] = [cls, x, "git-ignored-text:" + use, style + "@" + where]
    return c


def ignored_text_cases(tier, rng):
    cl = rc.id_classes()
    for cls in ("current", "deprecated", "licref", "unknown"):
        pool = sorted(cl[cls])
        for use in ("alone", "plus", "and", "two-tags", "dotlicense", "toml", "unused"):
            for _ in range(4 if tier == "thorough" else 1):
                yield ignored_text_case(rng, cls, rng.choice(pool), use)


class ProductStream(InventoryOracle, Stream):
    name = "product"
    rule = ("identifier class (current, deprecated, exception, LicenseRef-, unknown, wrong case, ill-formed LicenseRef- look-alike: "
            "underscore, non-ASCII letters / digits, colon, empty tail) x way of use (alone, '+', AND, OR, "
            "WITH, nested parentheses, two tags, .license, REUSE.toml, dep5, not used) x way of provision (absent, ID.txt, ID.md, ID, "
            "sub-directory, ID+.txt, ID.txt with .license companion, only a differently named relative: ID-or-later.txt, ID-only.txt; and reached "
            "through a symbolic link: the entry itself a link to a regular file (another text of LICENSES/, a file elsewhere in the project, a hidden store "
            "below LICENSES/, a file outside the project, a link to a link), the entry below a sub-directory that is a link to a directory (a LICENSES/ "
            "directory elsewhere in the project, below .reuse/, a hidden directory, outside the project), below a LICENSES that is itself a link, or "
            "only a dangling link of that name = not provided; quick: 13 link modes x 3 cells + every class x use once with a random mode, thorough: "
            "every class x use x mode): "
            "every cell once with identifiers drawn without replacement "
            "(thorough: every identifier of the bundled lists at least twice more), plus the identifiers whose stem is an identifier, "
            "the LicenseRef-*Unknown* family, look-alikes that can only be file names (`LicenseRef-a~b`, blanks, `@`), and the GNU "
            "families (every X with X-only and X-or-later on the list): used spelling {X, X-only, X-or-later} x {plain, '+'} x provided "
            "spelling {X, X+, X-only, X-or-later} (quick: 90 of the combinations, thorough: all); and cells in which BOTH spellings X and X+ are used "
            "in one project (one expression, two tags of one file, two files on either side of each other in the walk, three to six files alternating, "
            "REUSE.toml + .license + header) x LICENSES/ providing neither, X.*, X+.* (also .md, sub-directory), both, for identifiers of every class "
            "incl. those whose X+ is itself on the list, all judged in one process (--no-multiprocessing); and Git repositories whose ignore rules (`*.bak`-like patterns, exact paths, a whole "
            "sub-directory; in the root .gitignore or in LICENSES/.gitignore) match untracked licence texts below LICENSES/ beside tracked ones "
            "(the subject's own text, an unused one, a name that is no identifier, a deprecated one): every file in LICENSES/ counts; real `reuse lint --json` on the generated tree vs the model fed from the generator's "
            "records; oracle = the set definitions of the property text; non-trivial = distinct reports")

    def cases(self, tier, rng):
        for c in rc.product_cases(tier, rng):
            if rc.dup_free(c):
                yield c
        for c in both_spellings_cases(tier, random.Random(rng.random())):
            if rc.dup_free(c):
                yield c
        for c in ignored_text_cases(tier, random.Random(rng.random())):
            if rc.dup_free(c):
                yield c


def _plain_top_texts(c):
    linked = {l["n"] for l in c.get("liclinks", [])} | {l["target"] for l in c.get("liclinks", []) if l.get("target")}  # links and what alias links point at
    if any(l["k"] == "dir" for l in c.get("liclinks", [])):
        return []
    return [n for n in c["lic"] if "/" not in n and n not in linked and not n.endswith(".license") and not n.startswith(".")
            and not any(ch in n for ch in "*?[]\\!#\"'") and n == n.strip()]


def ignore_some_texts(rng, c):
    """in a tree that is a Git repository: an ignore rule (root .gitignore or LICENSES/.gitignore) that matches some of the
    licence texts directly below LICENSES/ — not all: Git lists nothing inside a wholly untracked directory — which stay
    untracked; the expected report is what it was (every file in LICENSES/ counts)"""
    if not c.get("git") or c.get("licignore"):
        return
    texts = _plain_top_texts(c)
    if len(texts) < 2:
        return
    chosen = rng.sample(texts, rng.randint(1, len(texts) - 1))
    where = rng.choice(["root", "LICENSES"])
    c["licignore"] = {"pats": [("/LICENSES/" if where == "root" else "/") + n.replace(" ", "\\ ") for n in chosen], "where": where}
    c["gitadd"] = True


def use_both_spellings(rng, c):
    """a tree in which some identifier X is used and provided as X.ext: one more tag `X+` (resp. `X` where `X+` is what is used)
    in another file or in the same one, and now and then the provision renamed to X+.ext — the demanded report follows from the
    set definitions, occurrence by occurrence"""
    texts = _plain_top_texts(c)
    t = rc.table()
    cands = []
    for n in texts:
        ident, has_ext, valid = rc.carried(n)
        if valid and has_ext and not ident.endswith("+") and ident in rc.used_ids(c) | {rc.base(u) for u in rc.used_ids(c)}:
            cands.append((n, ident))
    hdr = [f for f in c["files"] if f["kind"] == "text" and f["how"] == "header" and f.get("exprs") and not f.get("choke")]
    if not cands or not hdr:
        return
    n, x = rng.choice(cands)
    users = [f for f in hdr if any(x in rc.expr_keys(e) or rc.plus(x) in rc.expr_keys(e) for e in f["exprs"])]
    f = rng.choice(users) if users and rng.random() < 0.5 else rng.choice(hdr)
    f["exprs"] = f["exprs"] + [rc.K(x), rc.K(rc.plus(x))] if rng.random() < 0.5 else [rc.K(rc.plus(x))] + f["exprs"] + [rc.K(x)]
    if rng.random() < 0.4 and rc.plus(x) + n[len(x):] not in c["lic"]:
        c["lic"][c["lic"].index(n)] = rc.plus(x) + n[len(x):]
        if n + ".license" in c["lic"]:
            c["lic"].remove(n + ".license")


class TreeStream(InventoryOracle, Stream):
    name = "trees"
    rule = ("compliant-by-construction trees (1-6 files, headers in 7 comment styles, .license siblings, binaries, REUSE.toml incl. "
            "aggregate precedence, REUSE.toml hierarchies, dep5 with wildcard paragraphs, sub-directories of LICENSES/, .license companions, in three trees of ten licence "
            "texts reached through symbolic links to files and to directories (inside LICENSES/, elsewhere in the project, outside it) and dangling links, "
            "covered files in directories named like exempt ones (`.github`, `x.git`, `OLD-LICENSES`), non-covered material, some in a Git "
            "repository with ignored files / directories and covered files named alike; in every fourth tree that is a Git repository an ignore rule in "
            ".gitignore or LICENSES/.gitignore matches some of the licence texts, which stay untracked; in every fourth tree one file gets the tags `X` and "
            "`X+` of an identifier the tree provides as X.ext, the text now and then renamed to X+.ext) with 0-5 injected defects of 22 kinds; licence categories of the real report vs model vs property definitions")

    def cases(self, tier, rng):
        k = 0
        extra = random.Random(rng.random())  # a generator of their own for the additions: the trees stay what they were
        for c in rc.tree_cases(tier, rng):
            k += 1
            if k % 4 == 1:
                ignore_some_texts(extra, c)
            elif k % 4 == 3:
                use_both_spellings(extra, c)
            if rc.dup_free(c):
                if k % 40 == 0:
                    c["mp"] = True
                yield c


PROPERTY = Property(
    pid="C06",
    streams=[ProductStream(), TreeStream()],
    table_roundtrip=rc.table_roundtrip,
    assumptions=[
        "the model receives, per covered file, the identifiers of each licence expression as the generator's own tree traversal gives them; "
        "license-expression's parser and `license_keys`, tag extraction, REUSE.toml / dep5 lookup and the covered-file walk are exercised "
        "end to end by the streams, not modelled here",
        "theorems carry plainNames: a LICENSES/ entry named by a listed identifier X.Y whose stem X is itself an identifier "
        "(OLDAP-2.0.1, OLDAP-2.2.1, OLDAP-2.2.2, Python-2.0.1) is excluded (known finding), as is the `LicenseRef-.ext` shape",
        "two LICENSES/ entries resolving to one identifier make the tool stop with an error (model: none); not generated here (C16)",
        "symbolic links below LICENSES/: a link that resolves to a regular file is a licence text named by the link's own name; licence texts "
        "below a sub-directory that is a link to a directory count like those of any sub-directory ('licence texts in subdirectories of LICENSES/ "
        "count'); a dangling link is no licence text; links that form a loop, or that make one text appear under two names with one identifier, are not generated",
        "pathlib's name/stem/suffix and the LicenseRef- pattern are mirrored lexically and compared with CPython on every run (table round-trip)",
    ],
)
