"""C20, one more region of the input space: holders that contain digits, through the real command line.

`reuse annotate --copyright HOLDER [--year …] --copyright-prefix P`, then `reuse lint --json`, then the same command with another
--year and --merge-copyrights, then lint again.  The holders are names of the kind `TSG 1899 Hoffenheim e.V.`: a stand-alone
four-digit token in the middle / at the end, digits inside a word, inside an e-mail address or URL, in parentheses, a year range,
other digit counts, full-width digits — and, as a classified boundary, holders that *begin* with digits (with no year in front of
them the reader takes their first token for the year: documented, `wf_holder` of c20.py excludes them; there only the text of the
file is judged, not the reader's decomposition).

Oracle (generator ground truth; the prefix texts are the ten documented in docs/man/reuse-annotate.rst, written down here): the one
notice lint reports for the file is, character for character, `PREFIX [YEAR ]HOLDER` with YEAR = the --year value, `min - max` of
several, today's year without the option, nothing with --exclude-year; for well-formed holders the tool's reader splits it into
exactly that prefix, year and holder.  After the merging run the holder stands on one line whose years (outside the holder's own
characters) span every year requested so far.
"""
import datetime
import json
import re

from core import Stream
import cli
import c20 as base

#: docs/man/reuse-annotate.rst, option --copyright-prefix
PREFIX_TEXT = {
    "spdx": "SPDX-FileCopyrightText:",
    "spdx-c": "SPDX-FileCopyrightText: (C)",
    "spdx-symbol": "SPDX-FileCopyrightText: ©",
    "string": "Copyright",
    "string-c": "Copyright (C)",
    "string-symbol": "Copyright ©",
    "symbol": "©",
    "spdx-string": "SPDX-FileCopyrightText: Copyright",
    "spdx-string-c": "SPDX-FileCopyrightText: Copyright (C)",
    "spdx-string-symbol": "SPDX-FileCopyrightText: Copyright ©",
}

#: (kind, holder)
DIGIT_HOLDERS = [
    ("alone-middle", "TSG 1899 Hoffenheim e.V."), ("alone-middle", "Studio 2000 GmbH"), ("alone-middle", "Area 2071 Labs <info@area.example>"),
    ("alone-end", "Fussball-Club 1910"), ("alone-end", "Jane Doe, Class of 2020"), ("alone-twice", "Verein 1860 und 1899 e.V."),
    ("in-word", "Jane Doe <jane1984@example.org>"), ("in-word", "Web2000 Inc."), ("in-word", "v1234x Systems"), ("in-word", "R2D2 Robotics"),
    ("in-url", "Foo Project <https://foo.example/2019/about>"), ("in-url", "Jane <jane@1984.example>"), ("in-url", "Team 1999 <https://t1999.example>"),
    ("parens", "Jane Doe (since 1999)"), ("parens", "ACME (est. 1905) Ltd."), ("parens", "The Foo Authors [2004]"),
    ("range", "Team 2019-2021 Alumni"), ("range", "Alumni 2019 - 2021 e.V."), ("comma", "Class of 2020, Inc."),
    ("other-count", "Studio 54"), ("other-count", "Level 3 Communications"), ("other-count", "The 12345 Group"), ("other-count", "Year 20201 Ltd"),
    ("fullwidth", "Studio ２０００ GmbH"), ("no-digits", "Jane Doe"), ("no-digits", "张三 <zs@example.com>"),
    ("starts", "2000 Studios"), ("starts", "1899 Hoffenheim e.V."), ("starts", "42 Labs"), ("starts", "7-Eleven, Inc."), ("starts", "3M Company"),
]
#: (name, --year arguments, expected year text; None = no year) — "today" is filled in when the case runs
YEAR_MODES = [("one", ["2021"]), ("two", ["2019", "2021"]), ("two-desc", ["2022", "2018"]), ("default", []), ("exclude", None), ("same-twice", ["2020", "2020"])]
NAMES = ["f.py", "f.c", "f.html", "f.tex", "f.md", "Makefile", "f.rs", "f.jpg"]


def expected_year(args):
    if args is None:
        return None
    if not args:
        return str(datetime.date.today().year)
    if len(args) == 1:
        return args[0]
    return "%s - %s" % (min(args), max(args))


def year_argv(args):
    if args is None:
        return ["--exclude-year"]
    out = []
    for a in args:
        out += ["--year", a]
    return out


def years_outside(line, holder):
    return [int(x) for x in re.findall(r"(?<!\d)\d{4}(?!\d)", line.replace(holder, " "))]


class CliDigitsStream(Stream):
    name = "cli-digits"
    rule = ("real `reuse annotate` then `reuse lint --json` (in-process CLI), projects of 6 files (8 file types, one of them uncommentable, one in six with "
            "--force-dot-license): 31 holders containing digits (stand-alone four-digit token in the middle / at the end / twice, digits inside "
            "a word, an e-mail address, a URL, in parentheses / brackets, a year range, before a comma, one / two / five digits, full-width "
            "digits, controls without digits; holders that begin with digits are run and classified: without a year in front the reader takes "
            "their first token for the year) x the ten --copyright-prefix values x {--year once, twice ascending / descending / the same, no "
            "option (today), --exclude-year} — every holder x prefix and every holder x year mode in every run; then the same command with "
            "another --year and --merge-copyrights, lint again; oracle: lint reports exactly one notice for the file and it is `PREFIX [YEAR ]"
            "HOLDER` character for character (prefix texts from the manual); the tool's reader splits it into that prefix, year, holder "
            "(well-formed holders); after the merging run the holder stands on one line whose years outside the holder span every year "
            "requested; non-trivial = distinct (holder kind, prefix, year mode)")

    def cases(self, tier, rng):
        combos = []
        prefixes = list(PREFIX_TEXT)
        modes = list(range(len(YEAR_MODES)))
        if tier == "thorough":
            combos = [(h, p, m) for h in range(len(DIGIT_HOLDERS)) for p in prefixes for m in modes]
        else:
            for h in range(len(DIGIT_HOLDERS)):
                for p in prefixes:
                    combos.append((h, p, rng.choice(modes)))
                for m in modes:
                    combos.append((h, rng.choice(prefixes), m))
        rng.shuffle(combos)
        for i in range(0, len(combos), 6):
            files = []
            for j, (h, p, m) in enumerate(combos[i:i + 6]):
                files.append({"h": h, "p": p, "m": m, "name": "d%d/%s" % (j, rng.choice(NAMES)), "dot": rng.random() < 0.16,
                              "y2": rng.choice(["2023", "2015", "2021"]), "merge_prefix": rng.random() < 0.8})
            yield {"files": files}

    def impl(self, case):
        tree = {"LICENSES/MIT.txt": "MIT\n"}
        for f in case["files"]:
            tree[f["name"]] = "payload\n"
        out = {"first": {}, "second": {}, "rc": []}
        with cli.scratch("rv-c20d-") as root:
            cli.write_tree(root, tree)
            for step in ("first", "second"):
                for f in case["files"]:
                    holder = DIGIT_HOLDERS[f["h"]][1]
                    argv = ["annotate", "--copyright", holder, "--license", "MIT"]
                    if step == "first" or f["merge_prefix"]:
                        argv += ["--copyright-prefix", f["p"]]
                    if step == "first":
                        argv += year_argv(YEAR_MODES[f["m"]][1])
                    else:
                        argv += ["--year", f["y2"], "--merge-copyrights"]
                    if f["dot"]:
                        argv.append("--force-dot-license")
                    code, _o, exc = cli.run_cli(argv + [f["name"]], root)
                    if exc is not None:
                        return "EXC:%s:%s" % (type(exc).__name__, str(exc)[:100])
                    out["rc"].append(code)
                code, report, exc = cli.run_cli(["--no-multiprocessing", "lint", "--json"], root)
                try:
                    js = json.loads(report[report.index("{"):])
                except Exception as e:      # noqa
                    return "EXC:lint:%s:%s" % (exc, e)
                for entry in js["files"]:
                    out[step][entry["path"]] = sorted(c["value"] for c in entry["copyrights"])
                if step == "first":
                    snap = cli.snapshot(root)
                    out["text"] = {k: v[1].decode("utf-8", "replace") for k, v in snap.items() if v[0] == "file" and not k.startswith("LICENSES")}
        return json.dumps(out, sort_keys=True)

    def oracle(self, case, impl_out):
        if impl_out.startswith("EXC"):
            return "cli-crash: " + impl_out
        out = json.loads(impl_out)
        if any(out["rc"]):
            return "annotate-failed: exit statuses %r" % (out["rc"],)
        for f in case["files"]:
            kind, holder = DIGIT_HOLDERS[f["h"]]
            prefix = PREFIX_TEXT[f["p"]]
            year = expected_year(YEAR_MODES[f["m"]][1])
            want = "%s %s%s" % (prefix, (year + " ") if year else "", holder)
            got = out["first"].get(f["name"])
            # (--force-dot-license, or a type that cannot be commented: the header is in FILE.license)
            text = out["text"].get(f["name"] + ".license") or out["text"].get(f["name"], "")
            if want not in text:
                return ("build: --copyright %r --copyright-prefix %s %s: the file should hold %r, it holds %r"
                        % (holder, f["p"], " ".join(year_argv(YEAR_MODES[f["m"]][1])), want, text[:300]))
            if base.wf_holder(holder) or year is not None:
                # (a holder that begins with digits and has no year in front of it is read as year + rest: documented boundary)
                if got != [want]:
                    return "build-readback: %r was requested as %r; lint reads %r" % (holder, want, got)
            if base.wf_holder(holder):
                m = base.impl_search(want)
                parts = None if m is None else (m.groupdict()["prefix"], m.groupdict()["year"], m.groupdict()["statement"])
                if parts != (prefix, year, holder):
                    return "make-parse: built %r, reader sees %r instead of %r" % (want, parts, (prefix, year, holder))
            # the merging run
            stated = [int(x) for x in re.findall(r"\d{4}", year or "")] + [int(f["y2"])]
            got2 = out["second"].get(f["name"]) or []
            mine = [l for l in got2 if holder in l]
            if not base.wf_holder(holder):
                continue           # what the merge step does with a holder it reads differently is outside the quantifier
            if len(mine) != 1 or len(got2) != 1:
                return "merge-not-single: holder %r has %d of %d notices after --merge-copyrights --year %s: %r" % (holder, len(mine), len(got2), f["y2"], got2)
            ys = years_outside(mine[0], holder)
            if not ys or min(ys) > min(stated) or max(ys) < max(stated):
                return "merge-span: years %s were requested for %r, the one line is %r" % (sorted(set(stated)), holder, mine[0])
        return None

    def nontrivial(self, case, impl_out):
        if impl_out.startswith("EXC"):
            return None
        return tuple((DIGIT_HOLDERS[f["h"]][0], f["p"], YEAR_MODES[f["m"]][0]) for f in case["files"])

    def show(self, case):
        return {"files": [{"holder": DIGIT_HOLDERS[f["h"]][1], "prefix": f["p"], "year": YEAR_MODES[f["m"]][1], "name": f["name"], "dot": f["dot"],
                           "then": "--year %s --merge-copyrights" % f["y2"]} for f in case["files"]]}


STREAMS = [CliDigitsStream()]
