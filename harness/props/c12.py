"""C12 — ignore blocks hide exactly what they enclose."""
import itertools

from core import Property, Stream, enc, dec
import pystr
import cli
import os

START = "REUSE-IgnoreStart"
END = "REUSE-IgnoreEnd"


def _markers():
    from reuse import extract
    return extract.REUSE_IGNORE_START, extract.REUSE_IGNORE_END


def scanner(text: str, st: str, en: str) -> str:
    """Independent statement of the property: left-to-right, two states."""
    out = []
    i = 0
    inside = False
    n = len(text)
    while i < n:
        if not inside:
            if text.startswith(st, i):
                inside = True
                i += len(st)
            else:
                out.append(text[i])
                i += 1
        else:
            if text.startswith(en, i):
                inside = False
                i += len(en)
            else:
                i += 1
    return "".join(out)


LICS = ["MIT", "0BSD", "Apache-2.0", "GPL-3.0-or-later", "CC0-1.0", "ISC", "Zlib", "MPL-2.0"]


class Tok:
    S, E, L, C, N, X, NL, SP = range(8)


def render(tokens, commented):
    """tokens -> (text, planted) where planted is a list of (kind, value, offset)."""
    st, en = _markers()
    parts = []
    planted = []
    pos = 0
    k = 0
    pre = "# " if commented else ""
    for t in tokens:
        if t == Tok.S:
            s = st
        elif t == Tok.E:
            s = en
        elif t == Tok.L:
            v = LICS[k % len(LICS)]
            s = pre + "SPDX-License-Identifier: " + v + "\n"
            planted.append(("lic", v, pos))
            k += 1
        elif t == Tok.C:
            v = "2020 Holder%d" % k
            s = pre + "SPDX-FileCopyrightText: " + v + "\n"
            planted.append(("cpr", "SPDX-FileCopyrightText: " + v, pos))
            k += 1
        elif t == Tok.N:
            v = "Contrib%d" % k
            s = pre + "SPDX-FileContributor: " + v + "\n"
            planted.append(("con", v, pos))
            k += 1
        elif t == Tok.X:
            s = "x"
        elif t == Tok.NL:
            s = "\n"
        else:
            s = " "
        parts.append(s)
        pos += len(s)
    return "".join(parts), planted


def outside_mask(text, st, en):
    """offset -> True when the character is outside every block (scanner view)."""
    mask = [False] * len(text)
    i = 0
    inside = False
    n = len(text)
    while i < n:
        if not inside:
            if text.startswith(st, i):
                inside = True
                i += len(st)
            else:
                mask[i] = True
                i += 1
        else:
            if text.startswith(en, i):
                inside = False
                i += len(en)
            else:
                i += 1
    return mask


def token_seqs(maxlen, alphabet):
    for n in range(0, maxlen + 1):
        yield from itertools.product(alphabet, repeat=n)


class FilterStream(Stream):
    name = "filter"
    exhaustive = True
    rule = ("every sequence of <=N tokens over {START, END, licence tag, copyright tag, contributor tag, 'x', newline, blank} "
            "(quick N=5, thorough N=7 bare / 6 commented), bare and '# '-commented, plus random sequences up to 60 tokens; "
            "non-trivial = distinct filtered result that differs from the input")

    def cases(self, tier, rng):
        n = 7 if tier == "thorough" else 5
        alpha = list(range(8))
        for seq in token_seqs(n, alpha):
            yield {"t": list(seq), "c": 0}
        for seq in token_seqs(n - 1, alpha):
            if any(t in (Tok.L, Tok.C, Tok.N) for t in seq):
                yield {"t": list(seq), "c": 1}
        for _ in range(20000 if tier == "thorough" else 3000):
            ln = rng.randint(6, 60)
            yield {"t": [rng.choice([0, 0, 1, 1, 2, 3, 4, 5, 6, 7]) for _ in range(ln)], "c": rng.randint(0, 1)}
        # raw strings around the marker text itself (partial / overlapping marker spellings)
        st, en = _markers()
        frags = [st, en, st[:-1], en[:-1], "REUSE-Ignore", "R", st + en, en + st, st + st, "\n"]
        for a in frags:
            for b in frags:
                for c in frags:
                    yield {"raw": a + b + c}

    def text(self, case):
        if "raw" in case:
            return case["raw"]
        return render(case["t"], case["c"])[0]

    def impl(self, case):
        from reuse.extract import filter_ignore_block
        return enc(filter_ignore_block(self.text(case)))

    def model_lines(self, case):
        return ["filter\t" + enc(self.text(case))]

    def oracle(self, case, impl_out):
        st, en = _markers()
        want = scanner(self.text(case), st, en)
        if impl_out != enc(want):
            return "filter-differs-from-scanner: kept %r, property says %r" % (
                dec(impl_out) if not impl_out.startswith("EXC") else impl_out, want)
        return None

    def nontrivial(self, case, impl_out):
        return impl_out if impl_out != enc(self.text(case)) else None

    def show(self, case):
        return {"text": self.text(case)}


class ExtractStream(Stream):
    name = "extract"
    exhaustive = True
    rule = ("every sequence of <=N tokens (quick N=4, thorough N=6) with at least one tag, bare and commented, through "
            "extract_reuse_info; ground truth = tags planted outside blocks; non-trivial = at least one tag hidden by a block")

    def cases(self, tier, rng):
        n = 6 if tier == "thorough" else 4
        for seq in token_seqs(n, list(range(8))):
            if any(t in (Tok.L, Tok.C, Tok.N) for t in seq):
                yield {"t": list(seq), "c": 0}
                if len(seq) < n:
                    yield {"t": list(seq), "c": 1}
        for _ in range(5000 if tier == "thorough" else 800):
            ln = rng.randint(5, 40)
            yield {"t": [rng.choice([0, 1, 2, 2, 3, 3, 4, 5, 6, 7]) for _ in range(ln)], "c": rng.randint(0, 1)}

    def impl(self, case):
        from reuse.extract import extract_reuse_info
        text, _ = render(case["t"], case["c"])
        try:
            info = extract_reuse_info(text)
        except Exception as e:
            return "err:" + type(e).__name__
        return "L=%s|C=%s|N=%s" % (
            ";".join(sorted(str(e) for e in info.spdx_expressions)),
            ";".join(sorted(info.copyright_lines)),
            ";".join(sorted(info.contributor_lines)),
        )

    def expected(self, case):
        st, en = _markers()
        text, planted = render(case["t"], case["c"])
        mask = outside_mask(text, st, en)
        lic, cpr, con = set(), set(), set()
        for kind, v, off in planted:
            if mask[off]:
                {"lic": lic, "cpr": cpr, "con": con}[kind].add(v)
        return "L=%s|C=%s|N=%s" % (";".join(sorted(lic)), ";".join(sorted(cpr)), ";".join(sorted(con)))

    def oracle(self, case, impl_out):
        want = self.expected(case)
        if impl_out != want:
            return "extract-differs: got %s, tags outside blocks are %s" % (impl_out, want)
        return None

    def nontrivial(self, case, impl_out):
        st, en = _markers()
        text, planted = render(case["t"], case["c"])
        mask = outside_mask(text, st, en)
        hidden = tuple((k, v) for k, v, off in planted if not mask[off])
        return (impl_out, hidden) if hidden else None

    def classify(self, case, failure):
        return None

    def show(self, case):
        return {"text": render(case["t"], case["c"])[0]}


class ChainStream(Stream):
    """"Any number of blocks may follow one another": long chains.  A case is compact — a unit of tokens repeated `n` times, then a
    tail — and is judged twice: the filtered text against the two-state scanner, and what extract_reuse_info reads against the
    tags planted outside the blocks."""
    name = "chains"
    rule = ("a unit of 2-8 tokens holding at least one START ... END block (with tags inside and between the blocks, adjacent blocks, "
            "stray END markers, bare and commented) repeated 50 ... 5000 times (quick: up to 3000), followed by a tail of tags / an "
            "unterminated START; filter_ignore_block vs the model and the two-state scanner, extract_reuse_info vs the tags planted "
            "outside blocks; non-trivial = number of blocks")
    UNITS = [[0, 3, 1, 6], [0, 5, 1], [0, 1], [0, 2, 1, 3, 6], [1, 0, 4, 1, 6], [0, 1, 0, 1, 5], [0, 5, 6, 1, 2], [0, 0, 1, 1, 6], [0, 3, 1, 4, 0, 2, 1, 6]]
    TAILS = [[], [3], [2, 6, 3], [0, 2], [1, 3], [0]]

    def cases(self, tier, rng):
        sizes = [50, 300, 900, 1100, 2000, 5000] if tier == "thorough" else [50, 400, 1100, 3000]
        for n in sizes:
            units = self.UNITS if tier == "thorough" else rng.sample(self.UNITS, 4)
            for u in units:
                yield {"unit": u, "n": n + rng.randint(0, 9), "tail": rng.choice(self.TAILS), "c": rng.randint(0, 1)}
        for _ in range(40 if tier == "thorough" else 6):
            u = [0] + [rng.choice([1, 2, 3, 4, 5, 6, 7]) for _ in range(rng.randint(0, 5))] + [1] + [rng.choice([2, 3, 5, 6]) for _ in range(rng.randint(0, 2))]
            yield {"unit": u, "n": rng.choice([600, 1200, 2500]), "tail": rng.choice(self.TAILS), "c": rng.randint(0, 1)}

    def tokens(self, case):
        return list(case["unit"]) * case["n"] + list(case["tail"])

    def impl(self, case):
        import hashlib
        from reuse.extract import filter_ignore_block, extract_reuse_info
        text, _ = render(self.tokens(case), case["c"])
        try:
            kept = filter_ignore_block(text)
            f = "%d:%s" % (len(kept), hashlib.sha1(kept.encode("utf-8")).hexdigest())
        except RecursionError:
            f = "RecursionError"
        try:
            info = extract_reuse_info(text)
            e = hashlib.sha1(("L=%s|C=%s|N=%s" % (";".join(sorted(str(x) for x in info.spdx_expressions)), ";".join(sorted(info.copyright_lines)),
                                                   ";".join(sorted(info.contributor_lines)))).encode("utf-8")).hexdigest()
        except RecursionError:
            e = "RecursionError"
        except Exception as ex:  # noqa
            e = "err:" + type(ex).__name__
        return f + "|" + e

    def model_lines(self, case):
        return ["filter\t" + enc(render(self.tokens(case), case["c"])[0])]

    def model_out(self, case, outs):
        import hashlib
        kept = dec(outs[0])
        return "%d:%s" % (len(kept), hashlib.sha1(kept.encode("utf-8")).hexdigest())

    def agree(self, case, impl_out, model_out):
        return impl_out.split("|")[0] == model_out

    def oracle(self, case, impl_out):
        import hashlib
        st, en = _markers()
        text, planted = render(self.tokens(case), case["c"])
        f, e = impl_out.split("|")
        want = scanner(text, st, en)
        if f != "%d:%s" % (len(want), hashlib.sha1(want.encode("utf-8")).hexdigest()):
            return "chain-filter: %d blocks one after the other: filter_ignore_block gives %s, the scanner keeps %d characters" % (case["n"], f, len(want))
        mask = outside_mask(text, st, en)
        lic, cpr, con = set(), set(), set()
        for kind, v, off in planted:
            if mask[off]:
                {"lic": lic, "cpr": cpr, "con": con}[kind].add(v)
        w = hashlib.sha1(("L=%s|C=%s|N=%s" % (";".join(sorted(lic)), ";".join(sorted(cpr)), ";".join(sorted(con)))).encode("utf-8")).hexdigest()
        if e != w:
            return "chain-extract: %d blocks one after the other: extract_reuse_info gives %s, not the %d tags outside the blocks" % (
                case["n"], e if not e[0].isdigit() and len(e) < 40 else "other information", len(lic) + len(cpr) + len(con))
        return None

    def nontrivial(self, case, impl_out):
        return (tuple(case["unit"]), case["n"], impl_out)

    def show(self, case):
        return {"unit": render(case["unit"], case["c"])[0], "times": case["n"], "tail": render(case["tail"], case["c"])[0]}


class FileStream(Stream):
    """The same property observed where `reuse lint` observes it: through reuse_info_of_file on a real file, i.e. behind
    the 4 KiB window / whole-file (snippet) rule.  "Text between a start marker and the next end marker (or the end of the
    scanned text when there is none) never contributes": the scanned text is the first 4096 bytes, or the whole file when it
    contains an SPDX snippet marker."""
    name = "file"
    rule = ("(a) files of 1-20 KiB made of token runs (markers, the three tag kinds, text) separated by filler blocks of 0.5-5 KiB, with "
            "and without an SPDX-SnippetBegin line (placed before, inside or after the blocks), so that ignore blocks straddle the "
            "4096-byte window and every later 4 KiB boundary; the snippet marker itself lying across a multiple of 4096 or across a "
            "buffer-size-like offset from 8 KiB to 1 MiB (powers of two, 10000, 24576, 100000, 196608; files above 140 KiB are judged by "
            "the oracle only); (b) line-oriented files as people write them: 2-6 ignore blocks whose marker lines are IDENTICAL (same "
            "comment prefix, indentation and trailing words every time), tag lines drawn from a pool of three values per kind so that the "
            "same tag line occurs inside a block and again after it / in two blocks / twice outside, identical filler and blank lines, "
            "runs of 40-120 identical lines pushing later blocks behind the 4096-byte window, stray end markers, a last block left open; "
            "with and without an SPDX-SnippetBegin line at any position: reuse_info_of_file vs the scanner applied to the scanned text; "
            "non-trivial = a tag hidden by a block or cut off by the window")

    BOUNDS = [8192, 10000, 16384, 24576, 32768, 65536, 100000, 131072, 196608, 262144, 524288, 1048576]
    MODEL_MAX = 140 * 1024
    PRES = ["# ", "// ", "", "  # ", "-- ", "\t* "]
    MARK_TAILS = ["", "", " (generated)", " */", " -->"]

    def cases(self, tier, rng):
        for _ in range(3000 if tier == "thorough" else 250):
            segs = []
            for _ in range(rng.randint(2, 6)):
                segs.append([rng.choice([0, 0, 1, 2, 2, 3, 4, 5, 6]) for _ in range(rng.randint(1, 5))])
                segs.append(rng.choice([0, 300, 900, 2500, 3900, 4096, 5000]) + rng.randint(0, 200))
            case = {"segs": segs, "snip": rng.choice([None, None, 0, 1, 2, 3, 4, 5]), "c": rng.randint(0, 1)}
            if case["snip"] is not None and rng.random() < 0.5:
                # the snippet marker itself straddles a multiple of 4096 bytes (it starts j bytes before it)
                case["straddle"] = [rng.randint(1, 4), rng.randint(1, 16)]
                if rng.random() < 0.25:
                    # ... or a multiple of a larger buffer-size-like offset
                    case["straddle"].append(rng.choice(self.BOUNDS))
                    case["straddle"][0] = rng.randint(1, 3) if case["straddle"][2] <= 65536 else 1
            yield case
        for B in self.BOUNDS:
            for _ in range(4 if tier == "thorough" else 1):
                segs = []
                for _ in range(rng.randint(2, 4)):
                    segs.append([rng.choice([0, 0, 1, 2, 2, 3, 4, 5, 6]) for _ in range(rng.randint(1, 5))])
                    segs.append(rng.choice([0, 300, 2500, 4096]) + rng.randint(0, 200))
                yield {"segs": segs, "snip": rng.randint(0, 3), "c": rng.randint(0, 1), "straddle": [1, rng.randint(1, 16), B]}
        for _ in range(3000 if tier == "thorough" else 250):
            yield self.repeat_case(rng)

    def repeat_case(self, rng):
        """(b): what the file is made of, line by line"""
        items = []

        def tags(lo, hi):
            for _ in range(rng.randint(lo, hi)):
                r = rng.random()
                if r < 0.55:
                    items.append([rng.choice("LLCCN"), rng.randint(0, 2)])
                elif r < 0.85:
                    items.append(["F", rng.randint(0, 2)])
                else:
                    items.append(["B"])
        nb = rng.randint(2, 6)
        tags(0, 3)
        for i in range(nb):
            if rng.random() < 0.12:
                items.append(["P", rng.randint(40, 120), rng.randint(0, 2)])
            if rng.random() < 0.07:
                items.append(["E"])          # a stray end marker
            items.append(["S"])
            if rng.random() < 0.05:
                items.append(["S"])
            tags(0, 3)
            if not (i == nb - 1 and rng.random() < 0.1):
                items.append(["E"])          # (else: the last block is left open)
            tags(0, 3)
        snip = rng.choice([None, None, "first", "last", "rand", "rand", "rand"])
        if snip == "rand":
            snip = rng.randint(0, len(items))
        return {"plan": "repeat", "items": items, "pre": rng.randrange(len(self.PRES)), "mtail": rng.randrange(len(self.MARK_TAILS)),
                "snip": snip, "snipend": rng.random() < 0.5, "cprefix": rng.choice(["SPDX-FileCopyrightText:", "SPDX-SnippetCopyrightText:", "Copyright"])}

    def build_repeat(self, case):
        st, en = _markers()
        pre = self.PRES[case["pre"]]
        mtail = self.MARK_TAILS[case["mtail"]]
        parts, planted, pos = [], [], 0

        def put(x):
            nonlocal pos
            parts.append(x)
            pos += len(x)
        items = list(case["items"])
        snip = case["snip"]
        if snip == "first":
            snip = 0
        elif snip == "last":
            snip = len(items)
        for idx, it in enumerate(items + [["END"]]):
            if snip == idx:
                put(pre + "SPDX-SnippetBegin\n")
            t = it[0]
            if t == "S":
                put(pre + st + mtail + "\n")
            elif t == "E":
                put(pre + en + mtail + "\n")
            elif t == "L":
                v = LICS[it[1]]
                line = pre + "SPDX-License-Identifier: " + v + "\n"
                planted.append(("lic", v, pos, pos + len(line)))
                put(line)
            elif t == "C":
                v = "%s 20%02d Holder %s" % (case["cprefix"], 10 + it[1], "ABC"[it[1]])
                line = pre + v + "\n"
                planted.append(("cpr", v, pos, pos + len(line)))
                put(line)
            elif t == "N":
                v = "Contributor %s" % "XYZ"[it[1]]
                line = pre + "SPDX-FileContributor: " + v + "\n"
                planted.append(("con", v, pos, pos + len(line)))
                put(line)
            elif t == "F":
                put(["x = x + 1\n", pre + "generated code, do not edit\n", "}\n"][it[1]])
            elif t == "B":
                put("\n")
            elif t == "P":
                put(["    call(0x00, 0x00, 0x00, 0x00, 0x00, 0x00, 0x00, 0x00);\n", pre + "-" * 60 + "\n", "\n" * 30][it[2]] * it[1])
        if case["snipend"] and snip is not None:
            put(pre + "SPDX-SnippetEnd\n")
        return "".join(parts), planted

    def build(self, case):
        """-> (text, planted [(kind, value, start, end)])"""
        st, en = _markers()
        if case.get("plan") == "repeat":
            text, planted = self.build_repeat(case)
            return self.avoid_cut(text, planted)
        pre = "# " if case["c"] else ""
        parts, planted, pos, k = [], [], 0, 0

        def put(x):
            nonlocal pos
            parts.append(x)
            pos += len(x)
        nseg = 0
        for seg in case["segs"]:
            if isinstance(seg, int):
                if case["snip"] == nseg:
                    put(pre + "SPDX-SnippetBegin\n")
                nseg += 1
                n = seg
                while n > 0:
                    line = "filler line %04d\n" % (n % 9973)
                    put(line[-n:] if n < len(line) else line)
                    n -= len(line)
                continue
            for t in seg:
                if t == Tok.S:
                    put(st)
                elif t == Tok.E:
                    put(en)
                elif t in (Tok.L, Tok.C, Tok.N):
                    k += 1
                    if t == Tok.L:
                        v = LICS[k % len(LICS)]
                        line, rec = pre + "SPDX-License-Identifier: " + v + "\n", ("lic", v)
                    elif t == Tok.C:
                        v = "2020 Holder%d" % k
                        line, rec = pre + "SPDX-FileCopyrightText: " + v + "\n", ("cpr", "SPDX-FileCopyrightText: " + v)
                    else:
                        v = "Contrib%d" % k
                        line, rec = pre + "SPDX-FileContributor: " + v + "\n", ("con", v)
                    planted.append(rec + (pos, pos + len(line)))
                    put(line)
                elif t == Tok.X:
                    put("x")
                elif t == Tok.NL:
                    put("\n")
                else:
                    put(" ")
        text = "".join(parts)
        if case.get("straddle") and "SPDX-SnippetBegin" in text:
            kk, j = case["straddle"][:2]
            unit = case["straddle"][2] if len(case["straddle"]) > 2 else 4096
            i = text.index("SPDX-SnippetBegin")
            ls = i - len(pre)                       # start of the marker's line
            need = unit * kk - j - i
            while need < 0:
                need += unit
            if need > 0:
                if need < 200:
                    fill = "." * (need - 1) + "\n"
                else:
                    q, r = divmod(need, 80)
                    fill = ("." * 79 + "\n") * (q - 1) + "." * (79 + r) + "\n"
                assert len(fill) == need
                text = text[:ls] + fill + text[ls:]
                planted = [(kd, v, a + need, b + need) if a >= ls else (kd, v, a, b) for kd, v, a, b in planted]
        return self.avoid_cut(text, planted)

    def avoid_cut(self, text, planted):
        st, en = _markers()
        # the window must not cut a tag line or a marker in two (what a truncated tag means is C02's business)
        for _ in range(40):
            cut = 4096
            bad = any(a < cut < b for _, _, a, b in planted)
            for m in (st, en):
                i = text.find(m)
                while i >= 0:
                    bad = bad or (i < cut < i + len(m))
                    i = text.find(m, i + 1)
            if not bad:
                break
            text = "#" + "." * 4094 + "\n" + text      # a whole window of filler: alignments relative to 4096 are kept
            planted = [(kd, v, a + 4096, b + 4096) for kd, v, a, b in planted]
        return text, planted

    def scanned(self, text):
        return text if "SPDX-SnippetBegin" in text else text.encode()[:4096].decode()

    def impl(self, case):
        from reuse.extract import reuse_info_of_file
        import logging
        text, _ = self.build(case)
        with cli.scratch("rv-c12-") as root:
            path = os.path.join(root, "f.py")
            with open(path, "w", encoding="utf-8", newline="") as fp:
                fp.write(text)
            logging.disable(logging.CRITICAL)
            try:
                info = reuse_info_of_file(path, path, root)
            finally:
                logging.disable(logging.NOTSET)
        return "L=%s|C=%s|N=%s" % (";".join(sorted(str(e) for e in info.spdx_expressions)), ";".join(sorted(info.copyright_lines)),
                                   ";".join(sorted(info.contributor_lines)))

    def expected(self, case):
        st, en = _markers()
        text, planted = self.build(case)
        sc = self.scanned(text)
        mask = outside_mask(sc, st, en)
        got = {"lic": set(), "cpr": set(), "con": set()}
        for kind, v, a, b in planted:
            if b <= len(sc) and mask[a]:
                got[kind].add(v)
        if not got["lic"] and not got["cpr"]:
            got["con"] = set()      # reuse_info_of_file reports nothing unless there is copyright or licensing information
        return "L=%s|C=%s|N=%s" % tuple(";".join(sorted(got[k])) for k in ("lic", "cpr", "con"))

    def model_lines(self, case):
        sc = self.scanned(self.build(case)[0])
        return ["extract\t" + enc(sc)] if len(sc) <= self.MODEL_MAX else []

    def model_out(self, case, outs):
        from core import dec_list
        parts = dict(p.split("=", 1) for p in outs[0].split("|"))
        lic, cpr, con = (sorted(dec_list(parts[k])) for k in "LCN")
        if not lic and not cpr:
            con = []
        return "L=%s|C=%s|N=%s" % (";".join(lic), ";".join(cpr), ";".join(con))

    def oracle(self, case, impl_out):
        want = self.expected(case)
        if impl_out != want:
            return "file-extract-differs: got %s, tags outside blocks in the scanned text are %s" % (impl_out, want)
        return None

    def nontrivial(self, case, impl_out):
        st, en = _markers()
        text, planted = self.build(case)
        sc = self.scanned(text)
        mask = outside_mask(sc, st, en)
        hidden = tuple((k, v) for k, v, a, b in planted if b > len(sc) or not mask[a])
        return (impl_out, hidden, len(text) > 4096, "SPDX-SnippetBegin" in text, case.get("plan", "runs")) if hidden else None

    def show(self, case):
        text, planted = self.build(case)
        if case.get("plan") == "repeat":
            return {"bytes": len(text), "snippet_marker": "SPDX-SnippetBegin" in text, "text": text if len(text) < 3000 else text[:3000] + "...",
                    "repeated_lines": len(text.split("\n")) - len(set(text.split("\n")))}
        return {"bytes": len(text), "snippet_marker": "SPDX-SnippetBegin" in text, "snippet_marker_at": text.find("SPDX-SnippetBegin"),
                "text_head": text[:300], "segments": case["segs"]}


def table_roundtrip():
    from core import run_driver
    st, en = _markers()
    probe = "a" + st + "b" + en + "c"
    out = run_driver(["filter\t" + enc(probe)])[0]
    return "" if dec(out) == "ac" else "driver markers differ from reuse.extract markers: %r" % dec(out)


import c12s11     # noqa: E402  (needs the helpers above)
import c12s15     # noqa: E402

PROPERTY = Property(
    pid="C12",
    streams=[FilterStream(), ExtractStream(), ChainStream(), FileStream()] + pystr.STREAMS + c12s11.STREAMS + c12s15.STREAMS,
    assumptions=[
        "CPython str.index/in/slicing are modelled by Py.findSub/take/drop (validated by the correspondence; the shared pystr streams "
        "compare the Python string mirrors of Py/Str.lean with CPython over all of Unicode and on enumerated strings)",
        "extract stream: tag recognition itself (regex engine) is exercised, not modelled here (see C02)",
    ],
    table_roundtrip=table_roundtrip,
)
