"""C12 — ignore blocks hide exactly what they enclose."""
import itertools

from core import Property, Stream, enc, dec
import pystr

START = "REUSE-IgnoreStart"
END = "REUSE-IgnoreEnd"


def _markers():
    from reuse import extract
    return extract.REUSE_IGNORE_START, extract.REUSE_IGNORE_END


def scanner(text: str, st: str, en: str) -> str:
    """Independent statement of the property: left-to-right, two states."""
    out = []
    i = 0
    inside = False
    n = len(text)
    while i < n:
        if not inside:
            if text.startswith(st, i):
                inside = True
                i += len(st)
            else:
                out.append(text[i])
                i += 1
        else:
            if text.startswith(en, i):
                inside = False
                i += len(en)
            else:
                i += 1
    return "".join(out)


LICS = ["MIT", "0BSD", "Apache-2.0", "GPL-3.0-or-later", "CC0-1.0", "ISC", "Zlib", "MPL-2.0"]


class Tok:
    S, E, L, C, N, X, NL, SP = range(8)


def render(tokens, commented):
    """tokens -> (text, planted) where planted is a list of (kind, value, offset)."""
    st, en = _markers()
    parts = []
    planted = []
    pos = 0
    k = 0
    pre = "# " if commented else ""
    for t in tokens:
        if t == Tok.S:
            s = st
        elif t == Tok.E:
            s = en
        elif t == Tok.L:
            v = LICS[k % len(LICS)]
            s = pre + "SPDX-License-Identifier: " + v + "\n"
            planted.append(("lic", v, pos))
            k += 1
        elif t == Tok.C:
            v = "2020 Holder%d" % k
            s = pre + "SPDX-FileCopyrightText: " + v + "\n"
            planted.append(("cpr", "SPDX-FileCopyrightText: " + v, pos))
            k += 1
        elif t == Tok.N:
            v = "Contrib%d" % k
            s = pre + "SPDX-FileContributor: " + v + "\n"
            planted.append(("con", v, pos))
            k += 1
        elif t == Tok.X:
            s = "x"
        elif t == Tok.NL:
            s = "\n"
        else:
            s = " "
        parts.append(s)
        pos += len(s)
    return "".join(parts), planted


def outside_mask(text, st, en):
    """offset -> True when the character is outside every block (scanner view)."""
    mask = [False] * len(text)
    i = 0
    inside = False
    n = len(text)
    while i < n:
        if not inside:
            if text.startswith(st, i):
                inside = True
                i += len(st)
            else:
                mask[i] = True
                i += 1
        else:
            if text.startswith(en, i):
                inside = False
                i += len(en)
            else:
                i += 1
    return mask


def token_seqs(maxlen, alphabet):
    for n in range(0, maxlen + 1):
        yield from itertools.product(alphabet, repeat=n)


class FilterStream(Stream):
    name = "filter"
    exhaustive = True
    rule = ("every sequence of <=N tokens over {START, END, licence tag, copyright tag, contributor tag, 'x', newline, blank} "
            "(quick N=5, thorough N=7 bare / 6 commented), bare and '# '-commented, plus random sequences up to 60 tokens; "
            "non-trivial = distinct filtered result that differs from the input")

    def cases(self, tier, rng):
        n = 7 if tier == "thorough" else 5
        alpha = list(range(8))
        for seq in token_seqs(n, alpha):
            yield {"t": list(seq), "c": 0}
        for seq in token_seqs(n - 1, alpha):
            if any(t in (Tok.L, Tok.C, Tok.N) for t in seq):
                yield {"t": list(seq), "c": 1}
        for _ in range(20000 if tier == "thorough" else 3000):
            ln = rng.randint(6, 60)
            yield {"t": [rng.choice([0, 0, 1, 1, 2, 3, 4, 5, 6, 7]) for _ in range(ln)], "c": rng.randint(0, 1)}
        # raw strings around the marker text itself (partial / overlapping marker spellings)
        st, en = _markers()
        frags = [st, en, st[:-1], en[:-1], "REUSE-Ignore", "R", st + en, en + st, st + st, "\n"]
        for a in frags:
            for b in frags:
                for c in frags:
                    yield {"raw": a + b + c}

    def text(self, case):
        if "raw" in case:
            return case["raw"]
        return render(case["t"], case["c"])[0]

    def impl(self, case):
        from reuse.extract import filter_ignore_block
        return enc(filter_ignore_block(self.text(case)))

    def model_lines(self, case):
        return ["filter\t" + enc(self.text(case))]

    def oracle(self, case, impl_out):
        st, en = _markers()
        want = scanner(self.text(case), st, en)
        if impl_out != enc(want):
            return "filter-differs-from-scanner: kept %r, property says %r" % (
                dec(impl_out) if not impl_out.startswith("EXC") else impl_out, want)
        return None

    def nontrivial(self, case, impl_out):
        return impl_out if impl_out != enc(self.text(case)) else None

    def show(self, case):
        return {"text": self.text(case)}


class ExtractStream(Stream):
    name = "extract"
    exhaustive = True
    rule = ("every sequence of <=N tokens (quick N=4, thorough N=6) with at least one tag, bare and commented, through "
            "extract_reuse_info; ground truth = tags planted outside blocks; non-trivial = at least one tag hidden by a block")

    def cases(self, tier, rng):
        n = 6 if tier == "thorough" else 4
        for seq in token_seqs(n, list(range(8))):
            if any(t in (Tok.L, Tok.C, Tok.N) for t in seq):
                yield {"t": list(seq), "c": 0}
                if len(seq) < n:
                    yield {"t": list(seq), "c": 1}
        for _ in range(5000 if tier == "thorough" else 800):
            ln = rng.randint(5, 40)
            yield {"t": [rng.choice([0, 1, 2, 2, 3, 3, 4, 5, 6, 7]) for _ in range(ln)], "c": rng.randint(0, 1)}

    def impl(self, case):
        from reuse.extract import extract_reuse_info
        text, _ = render(case["t"], case["c"])
        try:
            info = extract_reuse_info(text)
        except Exception as e:
            return "err:" + type(e).__name__
        return "L=%s|C=%s|N=%s" % (
            ";".join(sorted(str(e) for e in info.spdx_expressions)),
            ";".join(sorted(info.copyright_lines)),
            ";".join(sorted(info.contributor_lines)),
        )

    def expected(self, case):
        st, en = _markers()
        text, planted = render(case["t"], case["c"])
        mask = outside_mask(text, st, en)
        lic, cpr, con = set(), set(), set()
        for kind, v, off in planted:
            if mask[off]:
                {"lic": lic, "cpr": cpr, "con": con}[kind].add(v)
        return "L=%s|C=%s|N=%s" % (";".join(sorted(lic)), ";".join(sorted(cpr)), ";".join(sorted(con)))

    def oracle(self, case, impl_out):
        want = self.expected(case)
        if impl_out != want:
            return "extract-differs: got %s, tags outside blocks are %s" % (impl_out, want)
        return None

    def nontrivial(self, case, impl_out):
        st, en = _markers()
        text, planted = render(case["t"], case["c"])
        mask = outside_mask(text, st, en)
        hidden = tuple((k, v) for k, v, off in planted if not mask[off])
        return (impl_out, hidden) if hidden else None

    def classify(self, case, failure):
        return None

    def show(self, case):
        return {"text": render(case["t"], case["c"])[0]}


def table_roundtrip():
    from core import run_driver
    st, en = _markers()
    probe = "a" + st + "b" + en + "c"
    out = run_driver(["filter\t" + enc(probe)])[0]
    return "" if dec(out) == "ac" else "driver markers differ from reuse.extract markers: %r" % dec(out)


PROPERTY = Property(
    pid="C12",
    streams=[FilterStream(), ExtractStream()] + pystr.STREAMS,
    assumptions=[
        "CPython str.index/in/slicing are modelled by Py.findSub/take/drop (validated by the correspondence; the shared pystr streams "
        "compare the Python string mirrors of Py/Str.lean with CPython over all of Unicode and on enumerated strings)",
        "extract stream: tag recognition itself (regex engine) is exercised, not modelled here (see C02)",
    ],
    table_roundtrip=table_roundtrip,
)
