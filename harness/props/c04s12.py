"""C04, two more regions of the input space.

`dep5nest` — "dep5 and REUSE.toml are mutually exclusive".  Projects with a `.reuse/dep5` AND files called REUSE.toml at the root, one
level down, next to the looked-up file, deeper than it, in a side branch, in several places at once — and in places / shapes that
are *not* a REUSE.toml of the project (inside LICENSES/, .reuse/, a Meson subproject without --include-meson-subprojects, a
directory ignored by Git; a zero-byte file, a symbolic link, a directory of that name, `reuse.toml`).  Through `Project.from_directory`
and through the real `reuse lint --json`.  Oracle (property text, established on the unchanged code for the "not in the project"
cells): a REUSE.toml file anywhere in the covered tree next to `.reuse/dep5` => the tool refuses (GlobalLicensingConflictError /
exit status 2) whatever the REUSE.toml holds — an override table, nothing, or text that is not TOML; no such file => the project is
accepted and the file is attributed from `.reuse/dep5` (aggregate) as in stream `dep5`.

`sniff` — the "own information = binary" cell is about the *contents*, not the name.  Contents that binaryornot calls binary (NULs,
control bytes, PNG / ELF / MPEG-TS / gzip / JPEG containers) with `Copyright 2009 Acme`, `SPDX-FileCopyrightText:`,
`SPDX-License-Identifier:` strings embedded in the first 4 KiB, stored under names that map to every kind of comment style (x.ts,
x.el, x.po, x.m, x.d, x.pro, Makefile, x.json, x.unknown, no extension …), and the reverse (tagged text under x.png / x.bin / x.PNG,
which binaryornot calls binary by name), under every chain of REUSE.toml levels of stream `tree` and a `.license` sibling.  Oracle:
binary (as binaryornot judges name and first 512 bytes) => the file itself states nothing; everything else follows `spec_items`.
"""
import json
import os
import random

from core import Stream, enc, dec, enc_list
import cli
import c04 as base

# --------------------------------------------------------------------------
# dep5 next to REUSE.toml

#: directory -> is a REUSE.toml *file* there part of the project?  ("meson": only with --include-meson-subprojects; "git": not when
#: the project is a Git repository whose .gitignore names the directory)
PLACES = {
    "": True, "a": True, "a/b": True, "a/b/c/d": True, "vendor": True, "vendor/lib/x": True, "Docs": True, "3rdparty/libfoo": True,
    "subprojects": True,                       # a file directly in subprojects/ is not in a subproject
    "LICENSES": False, "LICENSES/sub": False, ".reuse": False,
    "subprojects/sp": "meson", "subprojects/sp/deep": "meson", "vendor/subprojects/sp": "meson",
    "ignored": "git", "build/out": "git",
}
#: what is written under the name -> is it a REUSE.toml file?
KINDS = {"override": True, "closest": True, "aggregate": True, "bare": True, "invalid": True,
         "empty": False,        # zero bytes: not a file the walk reports
         "symlink": False,      # links are not followed
         "isdir": False,        # a directory of that name
         "lowercase": False}    # reuse.toml is some other file
TOML_TEXT = {
    "override": 'version = 1\n\n[[annotations]]\npath = "**"\nprecedence = "override"\nSPDX-FileCopyrightText = "2018 Nested Contributors"\nSPDX-License-Identifier = "Apache-2.0"\n',
    "closest": 'version = 1\n\n[[annotations]]\npath = "**"\nprecedence = "closest"\nSPDX-FileCopyrightText = "2018 Nested Contributors"\nSPDX-License-Identifier = "Apache-2.0"\n',
    "aggregate": 'version = 1\n\n[[annotations]]\npath = "**"\nprecedence = "aggregate"\nSPDX-License-Identifier = "0BSD"\n',
    "bare": "version = 1\n",
    "invalid": "this is [[ not TOML\n",
}
GITIGNORE = "ignored/\n/build/\n"


def in_project(place, kind, meson, vcs):
    p = PLACES[place]
    if p == "meson":
        p = meson
    elif p == "git":
        p = vcs != "git"
    return bool(p) and KINDS[kind]


def _git(args, cwd):
    import subprocess
    return subprocess.run(["git"] + args, cwd=cwd, capture_output=True,
                          env={**os.environ, "GIT_CONFIG_GLOBAL": "/dev/null", "GIT_CONFIG_SYSTEM": "/dev/null"})


class Dep5NestStream(Stream):
    name = "dep5nest"
    rule = ("real .reuse/dep5 projects (0-2 matching paragraphs x own information x .license sibling, as stream `dep5`) with files "
            "called REUSE.toml in 1-3 of 17 places (root, next to the file, deeper, side branches at depth 1-3, names sorting before "
            "'REUSE.toml'; LICENSES/, .reuse/, Meson subprojects with and without --include-meson-subprojects, directories "
            "ignored by Git in a real repository) in 9 shapes (override / closest / aggregate table, no table, not TOML; zero "
            "bytes, symbolic link, directory, `reuse.toml`), through Project.from_directory and the real `reuse lint --json`; "
            "every (place, shape) alone for both routes, then random combinations; oracle: a REUSE.toml file of the project next "
            "to dep5 => refused (GlobalLicensingConflictError, exit 2), none => accepted and attributed from dep5 by the "
            "specification; the model (op precedence) is compared on the accepted cases; non-trivial = distinct (places, shapes, "
            "route, flags, answer)")

    def cases(self, tier, rng):
        own_sib = [(o, s) for o in "nCLBUX" for s in "-eCLB"]
        for place in PLACES:
            for kind in KINDS:
                for via in ("project", "lint"):
                    if tier != "thorough" and via == "lint" and rng.random() < 0.6:
                        continue
                    o, s = rng.choice(own_sib)
                    yield {"tomls": [[place, kind]], "via": via, "meson": PLACES[place] == "meson" and rng.random() < 0.5,
                           "vcs": "git" if PLACES[place] == "git" and rng.random() < 0.7 else "none",
                           "own": o, "sib": s, "paras": rng.choice([0, 1, 1, 2])}
        for _ in range(1200 if tier == "thorough" else 200):
            n = rng.choice([0, 2, 2, 3])
            places = rng.sample(sorted(PLACES), n)
            if "LICENSES" in places and "LICENSES/sub" in places:      # two files of one stem in LICENSES/ are another property's business
                places.remove("LICENSES/sub")
            # mostly combinations in which no REUSE.toml counts, or exactly one that is not at the root
            tomls = [[p, rng.choice(sorted(KINDS))] for p in places]
            o, s = rng.choice(own_sib)
            yield {"tomls": tomls, "via": rng.choice(["project", "project", "lint"]), "meson": rng.random() < 0.4,
                   "vcs": rng.choice(["none", "none", "git"]), "own": o, "sib": s, "paras": rng.choice([0, 1, 1, 2])}

    def _build(self, case):
        files, truth, own_truth, fpath = base.build_dep5_case(case["own"], case["sib"], case["paras"])
        links, dirs = [], []
        for place, kind in case["tomls"]:
            pre = place + "/" if place else ""
            if kind in TOML_TEXT:
                files[pre + "REUSE.toml"] = TOML_TEXT[kind]
            elif kind == "empty":
                files[pre + "REUSE.toml"] = ""
            elif kind == "lowercase":
                files[pre + "reuse.toml"] = TOML_TEXT["override"]
            elif kind == "symlink":
                files[pre + "real-config.txt"] = TOML_TEXT["override"]
                links.append((pre + "REUSE.toml", "real-config.txt"))
            elif kind == "isdir":
                files[pre + "REUSE.toml/notes.txt"] = "a directory that happens to be called REUSE.toml\n"
        if case["vcs"] == "git":
            files[".gitignore"] = GITIGNORE
        return files, links, truth, own_truth, fpath

    def _expect_refused(self, case):
        return any(in_project(p, k, case["meson"], case["vcs"]) for p, k in case["tomls"])

    def impl(self, case):
        import logging
        import warnings
        files, links, truth, own_truth, fpath = self._build(case)
        own_src = (fpath + ".license", "dot-license") if case["sib"] != "-" else (fpath, "file-header")
        with cli.scratch("rv-c04n-") as root:
            cli.write_tree(root, files)
            for link, target in links:
                os.symlink(target, os.path.join(root, link))
            if case["vcs"] == "git":
                _git(["init", "-q"], root)
            items = []
            if case["via"] == "project":
                from reuse.project import Project
                from reuse.exceptions import GlobalLicensingConflictError
                logging.disable(logging.CRITICAL)
                try:
                    with cli.chdir(root), warnings.catch_warnings():
                        warnings.simplefilter("ignore")
                        try:
                            project = Project.from_directory(root, include_meson_subprojects=case["meson"])
                        except GlobalLicensingConflictError:
                            return "refused"
                        infos = project.reuse_info_of(os.path.join(root, fpath))
                finally:
                    logging.disable(logging.NOTSET)
                for info in infos:
                    st = info.source_type.value if info.source_type else None
                    for c in info.copyright_lines:
                        items.append(("C", (info.source_path, st), c))
                    for e in info.spdx_expressions:
                        items.append(("L", (info.source_path, st), str(e)))
                items = sorted(set(items))
            else:
                saved = os.environ.get("_SUPPRESS_DEP5_WARNING")
                os.environ["_SUPPRESS_DEP5_WARNING"] = "1"
                try:
                    args = (["--include-meson-subprojects"] if case["meson"] else []) + ["--no-multiprocessing", "lint", "--json"]
                    code, out, exc = cli.run_cli(args, root)
                finally:
                    if saved is None:
                        os.environ.pop("_SUPPRESS_DEP5_WARNING", None)
                    else:
                        os.environ["_SUPPRESS_DEP5_WARNING"] = saved
                if exc is not None:
                    return "EXC:%s:%s" % (type(exc).__name__, str(exc)[:100])
                if code == 2 and "{" not in out:
                    return "refused"
                try:
                    rep, _ = json.JSONDecoder().raw_decode(out[out.index("{"):])
                except Exception:
                    return "EXC:output:exit %s %s" % (code, out[:100])
                rr = os.path.realpath(root)
                entries = [f for f in rep["files"] if os.path.realpath(os.path.join(root, f["path"])) == os.path.join(rr, fpath)]
                if len(entries) != 1:
                    return "EXC:entries:%d entries for %s" % (len(entries), fpath)
                for kind, key in (("C", "copyrights"), ("L", "spdx_expressions")):
                    for it in entries[0][key]:
                        items.append((kind, (it.get("source"), it.get("source_type")), it["value"]))
            out_items = []
            for kind, src, v in items:
                label = "toml:0" if src == (".reuse/dep5", "dep5") else "own" if src == own_src else "bad-src:%s:%s" % src
                out_items.append("%s|%s|%s" % (kind, label, enc(v)))
            return ("accepted " + " ".join(sorted(out_items))).strip()

    def model_lines(self, case):
        if self._expect_refused(case):
            return []
        files, links, truth, own_truth, fpath = self._build(case)
        fields = ["precedence", enc_list(own_truth[0]), enc_list(own_truth[1])]
        for lv in truth:
            fields += ["-", "~", "~"] if lv is None else [lv[0], enc_list(lv[1]), enc_list(lv[2])]
        return ["\t".join(fields)]

    def model_out(self, case, outs):
        return ("accepted " + " ".join(sorted(x for x in outs[0].split(" ") if x))).strip()

    def oracle(self, case, impl_out):
        if impl_out.startswith("EXC"):
            return "dep5-nest-crash: " + impl_out
        files, links, truth, own_truth, fpath = self._build(case)
        counted = [(p or ".") + "/REUSE.toml" for p, k in case["tomls"] if in_project(p, k, case["meson"], case["vcs"])]
        if counted:
            if impl_out != "refused":
                return ("dep5-and-reuse-toml-accepted: the project has .reuse/dep5 and %s; the tool must refuse it (dep5 and REUSE.toml are "
                        "mutually exclusive) but accepts it (%s) and attributes %s from: %r" % (
                            ", ".join(counted), "Project.from_directory" if case["via"] == "project" else "`reuse lint --json`",
                            fpath, impl_out[len("accepted "):]))
            return None
        want = ("accepted " + base.canon(base.spec_items(truth, own_truth))).strip()
        if impl_out == "refused":
            return ("dep5-project-refused: no REUSE.toml file belongs to the project (%r are not: ignored directory / subproject / "
                    "not a regular non-empty file of that name), yet the tool refuses the dep5 project" % case["tomls"])
        if impl_out != want:
            return "dep5-attribution-differs: tool %r, specification %r" % (impl_out, want)
        return None

    def nontrivial(self, case, impl_out):
        return (tuple(map(tuple, case["tomls"])), case["via"], case["meson"], case["vcs"], impl_out[:8])

    def show(self, case):
        files, links, truth, own_truth, fpath = self._build(case)
        return {"files": {k: (v if isinstance(v, str) else repr(v)) for k, v in files.items()}, "symlinks": links, "file": fpath,
                "route": case["via"], "include_meson_subprojects": case["meson"], "vcs": case["vcs"],
                "expected": "refused" if self._expect_refused(case) else "accepted"}


# --------------------------------------------------------------------------
# binary contents under text-looking names, and the reverse

#: names with a comment style for text (several styles), with the uncommentable style, with none, and with an extension that
#: binaryornot lists as binary
TEXT_NAMES = ["x.ts", "x.el", "x.po", "x.m", "x.d", "x.pro", "x.py", "x.c", "x.html", "x.tex", "x.f90", "x.ml", "x.bat", "x.j2", "x.css",
              "x.md", "x.rst", "x.TS", "Makefile", "Dockerfile", ".gitignore", "CMakeLists.txt", "x.min.js", "x.tar.py"]
UNCOMMENTABLE_NAMES = ["x.json", "x.svg", "x.csv", "x.ipynb"]
NO_STYLE_NAMES = ["x.unknownext", "noextension", "x.dat", "x.txt"]
BINARY_NAMES = ["x.png", "x.PNG", "x.bin", "x.jpg", "x.gz", "x.exe", "x.pdf", "archive.tar.gz"]
EMBED = [b"Copyright 2009 Acme Encoder Works", b"SPDX-FileCopyrightText: 2011 Embedded Holder <e@example.com>", b"\xc2\xa9 2010 Foo GmbH",
         b"SPDX-License-Identifier: GPL-2.0-only", b"SPDX-License-Identifier: MIT AND", b"Copyright (C) 1999 Some Vendor, Inc.",
         b"SPDX-FileContributor: Hidden Helper", b"SPDX-License-Identifier: LicenseRef-Embedded"]
BIN_SHAPES = ["nul", "noise", "ctrl", "ctrl-high", "png", "elf", "mpegts", "gzip", "jpeg", "late-strings"]
TEXT_BODY = {"n": "just text\n", "C": "# SPDX-FileCopyrightText: 2019 Own\ntext\n", "L": "# SPDX-License-Identifier: Unlicense\ntext\n",
             "B": "# SPDX-FileCopyrightText: 2019 Own\n# SPDX-License-Identifier: Unlicense\ntext\n"}
TEXT_TRUTH = {"n": ([], []), "C": (["SPDX-FileCopyrightText: 2019 Own"], []), "L": ([], ["Unlicense"]),
              "B": (["SPDX-FileCopyrightText: 2019 Own"], ["Unlicense"])}


def binary_body(shape, seed):
    """Bytes of a binary file of the given shape with 1-4 of the EMBED strings, each on a line of its own, within the first 4 KiB."""
    rng = random.Random("body:%s:%d" % (shape, seed))
    strings = rng.sample(EMBED, rng.randint(1, 4))
    text = b"".join(b"\n" + s + b"\n" for s in strings)

    def noise(n, pool=None):
        return bytes(rng.choice(pool) if pool else rng.randrange(256) for _ in range(n))
    if shape == "nul":
        return b"\x00\x01\x02" + text + b"\x00\xff" + noise(rng.randint(0, 200))
    if shape == "noise":
        return noise(rng.randint(20, 300)) + text + noise(rng.randint(100, 600))
    if shape == "ctrl":
        pool = list(range(1, 9)) + list(range(14, 32))
        return noise(rng.randint(40, 400), pool) + text + noise(rng.randint(40, 300), pool)
    if shape == "ctrl-high":
        pool = list(range(1, 9)) + list(range(14, 32)) + list(range(0x80, 0x100))
        return noise(rng.randint(40, 400), pool) + text + noise(rng.randint(40, 300), pool)
    if shape == "png":
        return (b"\x89PNG\r\n\x1a\n\x00\x00\x00\rIHDR\x00\x00\x00\x10\x00\x00\x00\x10\x08\x06\x00\x00\x00\x1f\xf3\xffa"
                + b"\x00\x00\x00\x40tEXtCopyright\x00" + text + noise(4) + b"\x00\x00\x01\x00IDAT" + noise(256) + b"\x00\x00\x00\x00IEND\xaeB`\x82")
    if shape == "elf":
        return b"\x7fELF\x02\x01\x01\x00" + b"\x00" * 8 + b"\x03\x00>\x00\x01\x00\x00\x00" + noise(40) + b"\x00" * 64 + text + b"\x00.shstrtab\x00.text\x00" + noise(100)
    if shape == "mpegts":
        out = b""
        payload = text
        for k in range(rng.randint(3, 8)):
            chunk, payload = payload[:184], payload[184:]
            out += b"G\x40" + bytes([0x11 + k % 3, 0x10 + k % 16]) + (chunk + noise(184))[:184]
        return out
    if shape == "gzip":
        return b"\x1f\x8b\x08\x08\x00\x00\x00\x00\x00\x03" + text + b"\x00" + noise(300)
    if shape == "jpeg":
        return b"\xff\xd8\xff\xe0\x00\x10JFIF\x00\x01\x01\x00\x00\x01\x00\x01\x00\x00\xff\xfe" + bytes([len(text) // 256, len(text) % 256]) + text + b"\xff\xdb\x00C\x00" + noise(200)
    if shape == "late-strings":      # binary from the first byte on, the strings only after the part that is sniffed
        return b"\x00\x00\x01\xba" + noise(rng.randint(700, 2500)) + text + noise(100)
    raise ValueError(shape)


def sniff_content(case):
    if case["content"] in TEXT_BODY:
        return TEXT_BODY[case["content"]].encode()
    return binary_body(case["content"], case["cseed"])


def is_binary_by_binaryornot(name, content):
    """What binaryornot says about a file of that name and contents (its two public steps: the extension list, the first 512 bytes)."""
    from binaryornot.helpers import has_binary_extension, is_binary_string
    return bool(has_binary_extension(name) or is_binary_string(content[:512]))


def build_sniff(case):
    """-> (files, truth levels, own truth, path of the file)"""
    opts = base.level_options()
    levels = [opts[i] for i in case["chain"]]
    files, truth, _, fpath = base.build_case(levels, "n", case["sib"])
    name = case["name"]
    content = sniff_content(case)
    out = {}
    for k, v in files.items():
        if k.endswith("REUSE.toml"):
            v = v.replace("f.txt", name).replace('"f.*"', '"%s*"' % name[:1])
            out[k] = v
        elif k == fpath:
            out[k[:-len("f.txt")] + name] = content
        elif k == fpath + ".license":
            out[k[:-len("f.txt.license")] + name + ".license"] = v
        else:
            out[k] = v
    newpath = fpath[:-len("f.txt")] + name
    if case["sib"] != "-":
        own_truth = {"e": ([], []), "C": (["SPDX-FileCopyrightText: 2018 Sib"], []), "L": ([], ["Zlib"]),
                     "B": (["SPDX-FileCopyrightText: 2018 Sib"], ["Zlib"])}[case["sib"]]
    elif is_binary_by_binaryornot(name, content):
        own_truth = ([], [])
    else:
        own_truth = TEXT_TRUTH[case["content"]]
    return out, truth, own_truth, newpath


class SniffStream(Stream):
    name = "sniff"
    rule = ("binary *contents* under text-looking *names* and the reverse, on real trees through Project.reuse_info_of and the real "
            "`reuse lint --json`: 10 binary shapes (NULs, random bytes, control bytes, control and high bytes, PNG with a tEXt chunk, ELF, MPEG transport "
            "stream packets, gzip with a file name, JPEG with a comment segment, binary head with the strings after the sniffed "
            "part) holding 1-4 of 8 copyright / licence / contributor strings on lines of their own within the first 4 KiB — each "
            "generated body is kept only if binaryornot calls it binary — under 24 names with a text comment style (x.ts x.el "
            "x.po x.m x.d x.pro … Makefile, .gitignore), 4 uncommentable, 4 without style; tagged text under 8 names binaryornot "
            "lists as binary (x.png x.PNG x.bin …) and under text names; x every chain of REUSE.toml levels of depth 1 (17 "
            "shapes) and random chains of depth 2-3, .license sibling {absent x4, empty, copyright, licence, both}; oracle: "
            "binary (binaryornot on name + first 512 bytes) and no sibling => nothing has the file as its source, the rest "
            "by the specification (spec_items); model compared as in `tree`; non-trivial = distinct (name, content, chain, sibling)")

    def cases(self, tier, rng):
        opts = base.level_options()
        names_text = TEXT_NAMES + UNCOMMENTABLE_NAMES + NO_STYLE_NAMES

        def one(name, content, chain, sib, via):
            case = {"name": name, "content": content, "cseed": rng.randrange(1 << 20), "chain": chain, "sib": sib, "via": via}
            if content in BIN_SHAPES and not is_binary_by_binaryornot("noextension", sniff_content(case)):
                return None          # binaryornot takes this body for text: not a case of the binary cell
            return case
        # every level shape x binary content under a text name; every text name x every shape once
        for i in range(len(opts)):
            for _ in range(4 if tier == "thorough" else 1):
                c = one(rng.choice(TEXT_NAMES), rng.choice(BIN_SHAPES), [i], "-", rng.choice(["project", "project", "lint"]))
                if c:
                    yield c
        for name in names_text:
            for shape in (BIN_SHAPES if tier == "thorough" else rng.sample(BIN_SHAPES, 2)):
                c = one(name, shape, [rng.randrange(len(opts)) for _ in range(rng.choice([1, 2]))], "-", rng.choice(["project", "project", "lint"]))
                if c:
                    yield c
        for _ in range(2500 if tier == "thorough" else 300):
            r = rng.random()
            if r < 0.6:
                name, content = rng.choice(names_text), rng.choice(BIN_SHAPES)
            elif r < 0.85:
                name, content = rng.choice(BINARY_NAMES), rng.choice("CLBBn")
            else:
                name, content = rng.choice(names_text), rng.choice("CLBn")
            depth = rng.choice([1, 2, 2, 3])
            c = one(name, content, [rng.randrange(len(opts)) for _ in range(depth)], rng.choice("----eCLB"), rng.choice(["project", "project", "project", "lint"]))
            if c:
                yield c

    def impl(self, case):
        import logging
        files, truth, own_truth, fpath = build_sniff(case)
        own_src = (fpath + ".license", "dot-license") if case["sib"] != "-" else (fpath, "file-header")
        items = []
        with cli.scratch("rv-c04b-") as root:
            cli.write_tree(root, files)
            if case["via"] == "project":
                from reuse.project import Project
                logging.disable(logging.CRITICAL)
                try:
                    with cli.chdir(root):
                        project = Project.from_directory(root)
                        infos = project.reuse_info_of(os.path.join(root, fpath))
                finally:
                    logging.disable(logging.NOTSET)
                for info in infos:
                    st = info.source_type.value if info.source_type else None
                    if info.path != fpath:
                        st = "bad-path:%s" % info.path
                    for c in info.copyright_lines:
                        items.append(("C", (info.source_path, st), c))
                    for e in info.spdx_expressions:
                        items.append(("L", (info.source_path, st), str(e)))
                items = sorted(set(items))
            else:
                code, out, exc = cli.run_cli(["--no-multiprocessing", "lint", "--json"], root)
                if exc is not None:
                    return "EXC:%s:%s" % (type(exc).__name__, str(exc)[:100])
                try:
                    rep, _ = json.JSONDecoder().raw_decode(out[out.index("{"):])
                except Exception:
                    return "EXC:output:exit %s %s" % (code, out[:100])
                rr = os.path.realpath(root)
                entries = [f for f in rep["files"] if os.path.realpath(os.path.join(root, f["path"])) == os.path.join(rr, fpath)]
                if len(entries) != 1:
                    return "EXC:entries:%d entries for %s" % (len(entries), fpath)
                for kind, key in (("C", "copyrights"), ("L", "spdx_expressions")):
                    for it in entries[0][key]:
                        items.append((kind, (it.get("source"), it.get("source_type")), it["value"]))
        out_items = []
        for kind, (sp, st), v in items:
            if st == "reuse-toml" and sp and sp.endswith("REUSE.toml") and os.path.dirname(sp) in base.DIRS:
                label = "toml:%d" % base.DIRS.index(os.path.dirname(sp))
            elif (sp, st) == own_src:
                label = "own"
            else:
                label = "bad-src:%s:%s" % (sp, st)
            out_items.append("%s|%s|%s" % (kind, label, enc(v)))
        return " ".join(sorted(out_items))

    def model_lines(self, case):
        files, truth, own_truth, fpath = build_sniff(case)
        fields = ["precedence", enc_list(own_truth[0]), enc_list(own_truth[1])]
        for lv in truth:
            fields += ["-", "~", "~"] if lv is None else [lv[0], enc_list(lv[1]), enc_list(lv[2])]
        return ["\t".join(fields)]

    def model_out(self, case, outs):
        return " ".join(sorted(x for x in outs[0].split(" ") if x))

    def oracle(self, case, impl_out):
        if impl_out.startswith("EXC"):
            return "sniff-crash: " + impl_out
        files, truth, own_truth, fpath = build_sniff(case)

        def pretty(s):
            return sorted((x.split("|")[0], x.split("|")[1], dec(x.split("|")[2])) for x in s.split(" ") if x.count("|") == 2)
        binary = is_binary_by_binaryornot(case["name"], sniff_content(case))
        got = pretty(impl_out)
        if binary and case["sib"] == "-" and any(src == "own" for _, src, _ in got):
            return ("binary-file-read: %s is a binary file (binaryornot: name + first 512 bytes) without .license sibling, yet the tool "
                    "attributes items with the file itself as their source: %s" % (fpath, [g for g in got if g[1] == "own"]))
        want = base.canon(base.spec_items(truth, own_truth))
        if impl_out != want:
            return "attribution-differs (%s file %s): tool attributes %s, specification says %s" % (
                "binary" if binary else "text", fpath, got, pretty(want))
        return None

    def nontrivial(self, case, impl_out):
        return (case["name"], case["content"], tuple(case["chain"]), case["sib"]) if impl_out else None

    def show(self, case):
        files, truth, own_truth, fpath = build_sniff(case)
        return {"files": {k: (v if isinstance(v, str) else repr(v)) for k, v in files.items()}, "file": fpath, "route": case["via"],
                "binaryornot_says_binary": is_binary_by_binaryornot(case["name"], sniff_content(case))}


STREAMS = [Dep5NestStream(), SniffStream()]
