"""C03, the part of `src/reuse/vcs.py` between the raw answers of the version control programs and the two
predicates the covered-file walk asks: streams `vcs` (the real strategy classes on generated raw command
outputs), `vcsgit` (real Git repositories; the raw outputs are captured from the real commands and fed to the
model) and `vcsdetect` (choice of the strategy, find_root).

Mercurial, Jujutsu and Pijul are not installed: their classes only ever see generated (canned) outputs here.
"""
import contextlib
import json
import logging
import os
import subprocess
from pathlib import Path

from core import Stream, enc, enc_list, dec_list
import cli

# --------------------------------------------------------------------------
# helpers

#: directory-entry names: blanks, line breaks, non-ASCII, prefixes of each other, shell and quoting characters
NAMES = ["a", "b", "ab", "abc", "src", "build", "x.o", "sp ace", "é", "日本", "-dash", "...", " lead", "trail ",
         "%41", "a.b", "mod", "sub", "tab\tx", 'q"uote', "back\\slash", "~", "*", "inner", "nl\nx", "cr\rx", ".hidden", "A"]
LINEBREAKS = set("\n\r\x0b\x0c\x1c\x1d\x1e\x85  ")
KINDS = ("git", "git", "git", "hg", "jj", "pijul")
#: the key pattern vcs.py hands to `git config --get-regexp` (what the model's second raw output is the answer to)
GITMODULES_KEY_PATTERN = r"\.path$"
#: submodule names (`git submodule add --name`; by default the path): dots, blanks, slashes, endings that look like a key
SUB_NAMES = ["lib.v2", "vendor/lib.v2", "jquery.js", "foo-1.2", "my sub", "a.path", "x.path.y", "UP.per", "é.ü", "path", ".", "a.b.c.d",
             "n.url", "submodule.x", "tab\tname", 'q"uote', "back\\slash", "[sect]", "k=v", "#hash", "trailing.", ".leading"]
CWDS = ("root", "root", "top", "sibling", "inside")
ROOTSP = ("abs", "rel", "rel", "dotrel", "abs/", "absdot")
FORMS = ("walk", "walk", "walk", "join", "abs", "relcwd", "noisy", "updown")


def has_linebreak(comps):
    return any(c in LINEBREAKS for n in comps for c in n)


def rand_comps(rng, pool, maxdepth=3):
    return [rng.choice(pool) for _ in range(rng.randint(1, maxdepth))]


def spell_entry(comps, is_dir, how):
    s = "/".join(comps)
    if how == "plain":
        return s + ("/" if is_dir else "")
    if how == "noslash":
        return s
    if how == "slash":
        return s + "/"
    if how == "dot":
        return "./" + s + ("/" if is_dir else "")
    if how == "dbl":
        return "//".join(comps).replace("//", "/./", 1) + ("//" if is_dir else "")
    if how == "slashdot":
        return s + "/."
    raise ValueError(how)


ENTRY_SPELLINGS = ("plain", "plain", "plain", "noslash", "slash", "dot", "dbl", "slashdot")


@contextlib.contextmanager
def patched(obj, **attrs):
    old = {k: obj.__dict__.get(k, None) for k in attrs}
    had = {k: k in obj.__dict__ for k in attrs}
    for k, v in attrs.items():
        setattr(obj, k, v)
    try:
        yield
    finally:
        for k in attrs:
            if had[k]:
                setattr(obj, k, old[k])
            else:
                delattr(obj, k)


def strategy_class(kind):
    from reuse import vcs
    return {"git": vcs.VCSStrategyGit, "hg": vcs.VCSStrategyHg, "jj": vcs.VCSStrategyJujutsu, "pijul": vcs.VCSStrategyPijul,
            "none": vcs.VCSStrategyNone}[kind]


class Layout:
    """the scratch directories of one case: top/proj is the project root; the process is in one of four places"""

    def __init__(self, top, cwd_kind, rootsp, links=()):
        self.top = os.path.realpath(top)
        self.root = os.path.join(self.top, "proj")
        os.makedirs(os.path.join(self.root, "inner"), exist_ok=True)
        os.makedirs(os.path.join(self.top, "elsewhere"), exist_ok=True)
        self.cwd = {"root": self.root, "top": self.top, "sibling": os.path.join(self.top, "elsewhere"),
                    "inside": os.path.join(self.root, "inner")}[cwd_kind]
        rel = os.path.relpath(self.root, self.cwd)
        self.rootsp = {"abs": self.root, "rel": rel, "dotrel": "./" + rel, "abs/": self.root + "/",
                       "absdot": self.root + "/./"}[rootsp]
        # symbolic links in the working directory of the process (an unrelated place unless the process is in the root)
        if cwd_kind in ("top", "sibling"):
            for name, target in links:
                if not os.path.lexists(os.path.join(self.cwd, name)):
                    os.symlink(target, os.path.join(self.cwd, name))

    def spell_query(self, comps, form):
        """a spelling of the path `root/comps` as an argument of is_ignored / is_submodule"""
        tail = "/".join(comps)
        full = os.path.join(self.root, tail) if comps else self.root
        if form == "walk":          # what iter_files builds: Path(root) / name / name
            return str(Path(self.rootsp).joinpath(*comps))
        if form == "join":          # the root as it was spelt, joined as a string
            return self.rootsp.rstrip("/") + "/" + tail if comps else self.rootsp
        if form == "abs":
            return full
        if form == "relcwd":
            return os.path.relpath(full, self.cwd)
        if form == "noisy":
            return str(Path(self.rootsp)) + "/./" + "//".join(comps) + "/"
        if form == "updown":        # a/../a/b
            return str(Path(self.rootsp).joinpath(comps[0], "..", *comps))
        raise ValueError(form)


# --------------------------------------------------------------------------
# stream `vcs`: the real classes on generated raw outputs


class VcsCannedStream(Stream):
    name = "vcs"
    rule = ("the real VCSStrategyGit / Hg / Jujutsu / Pijul classes with reuse.vcs.execute_command replaced by an emulation that "
            "answers from a generated listing (entries with and without trailing slash, './' and '//' noise, nested, names with "
            "blanks, line breaks, non-ASCII, quotes; absolute and '..' noise entries; empty output), keyed by the directory the "
            "command is started in and by its separator flag; process in the root / its parent / a sibling / a sub-directory; root "
            "spelt absolute, relative, './rel', with trailing slash; is_ignored and is_submodule for query paths spelt as the walk "
            "does, as a string join, absolute, relative to the process, with './' '//' noise, with '..', the root itself, outside the "
            "root: real class vs model (driver op vcsq, every query) vs generator ground truth (queries that denote a normal path "
            "below the root, not below a listed directory); Hg/Jujutsu/Pijul only ever on canned outputs; the emulated `git config "
            "--get-regexp PATTERN` answers with the keys PATTERN finds among submodule.<name>.path / .url / .branch, the names being m0.., the "
            "path itself, or one of 22 with dots, blanks, slashes, quotes, `.path` / `.url` endings (the model is fed the answer to the pattern "
            "`\\.path$`); non-trivial = some query ignored and some not")

    def __init__(self):
        self._facts = {}

    def cases(self, tier, rng):
        n = 3000 if tier == "thorough" else 400
        # corner cases first: empty output for each kind
        for kind in ("git", "hg", "jj", "pijul"):
            yield {"kind": kind, "cwd": "root", "rootsp": "abs", "entries": [], "noise": [], "subs": [],
                   "queries": [[["a"], "walk"], [["a", "b"], "abs"], [[], "walk"], [None, "outside"]]}
        for _ in range(n):
            kind = rng.choice(KINDS)
            pool = NAMES if kind in ("git", "hg") else [x for x in NAMES if not has_linebreak([x])]
            pool = rng.sample(pool, rng.randint(3, 7))
            entries = []
            for _ in range(rng.randint(0, 6)):
                comps = rand_comps(rng, pool)
                is_dir = rng.random() < 0.4
                how = rng.choice(ENTRY_SPELLINGS) if kind in ("git", "hg") else rng.choice(("noslash", "noslash", "dot", "dbl"))
                entries.append([comps, is_dir, how])
            noise = []
            if rng.random() < 0.3:
                noise = rng.sample(["/abs/elsewhere", "../outside", "a/../b", "/", "..", "//double/x", ""], rng.randint(1, 3))
                if kind in ("jj", "pijul"):
                    # `jj files` / `pijul list` never print '..'; an empty line is dropped by jj's filter, kept by pijul's splitlines
                    noise = [x for x in noise if x and ".." not in x]
                    if kind == "pijul" and rng.random() < 0.5:
                        noise.append("")
            subs = []
            links = []
            if kind == "git" and rng.random() < 0.7:
                # `git config -z` ends every value with NUL, so a path may contain line breaks of any kind
                spool = pool if rng.random() < 0.3 else ([x for x in pool if not has_linebreak([x])] or ["mod"])
                for i in range(rng.randint(1, 3)):
                    comps = rand_comps(rng, spool, 2)
                    # the name of a submodule is any text without a line feed: by default its path (`git submodule add URL PATH`),
                    # otherwise what `--name` said; dots, blanks, slashes, a name ending in `.path` or `.url`
                    k = rng.random()
                    name = ("m%d" % i if k < 0.3 else "/".join(comps) if k < 0.6 and not has_linebreak(comps) else
                            rng.choice(SUB_NAMES) + ("" if i == 0 else "-%d" % i))
                    subs.append([name, comps, rng.choice(("noslash", "noslash", "slash", "dot"))])
                if rng.random() < 0.3:
                    # the directory the process is in has an entry named like a directory of the project that is a symbolic
                    # link to a name that is a submodule path of the project
                    other = rng.choice([x for x in pool if x != subs[0][1][0]] or ["other"])
                    links.append([other, subs[0][1][0]])
            queries = []
            for _ in range(rng.randint(4, 10)):
                r = rng.random()
                if r < 0.45 and (entries or subs):    # at, above or below a listed path
                    base = rng.choice([e[0] for e in entries] + [s[1] for s in subs])
                    k = rng.random()
                    comps = base if k < 0.6 else (base[:-1] if k < 0.75 and len(base) > 1 else base + [rng.choice(pool)])
                elif r < 0.9:
                    comps = rand_comps(rng, pool)
                elif r < 0.95:
                    queries.append([[], rng.choice(("walk", "abs", "relcwd", "join"))])
                    continue
                else:
                    queries.append([None, "outside"])
                    continue
                queries.append([list(comps), rng.choice(FORMS)])
            for name, _ in links:
                queries.append([[name], "walk"])
            yield {"kind": kind, "cwd": rng.choice(CWDS), "rootsp": rng.choice(ROOTSP), "entries": entries, "noise": noise,
                   "subs": subs, "queries": queries, "links": links}

    # -- the emulated programs -------------------------------------------------
    @staticmethod
    def _listing(case, below=()):
        """the listing a program started in root/<below> prints: the entries under that directory, relative to it"""
        out = []
        for comps, is_dir, how in case["entries"]:
            if list(comps[:len(below)]) == list(below) and len(comps) > len(below):
                out.append(spell_entry(comps[len(below):], is_dir, how))
        if not below:
            out.extend(case["noise"])
        return out

    @staticmethod
    def _raw(case, lay=None, below=()):
        """raw outputs (listing, submodule configuration) of the commands the strategy's __init__ runs in the root"""
        kind = case["kind"]
        items = VcsCannedStream._listing(case, below)
        if kind in ("git", "hg"):
            raw1 = "".join(x + "\0" for x in items)
        else:
            raw1 = "".join(x + "\n" for x in items)
        raw2 = ""
        if kind == "git" and not below:
            raw2 = VcsCannedStream._config(case, GITMODULES_KEY_PATTERN)
        return raw1, raw2

    @staticmethod
    def _gitmodules(case):
        """the (key, value) pairs of the emulated .gitmodules, in file order: path, url and sometimes branch / update of every submodule"""
        out = []
        for i, (n, c, how) in enumerate(case["subs"]):
            out.append(("submodule.%s.path" % n, spell_entry(c, True, how)))
            out.append(("submodule.%s.url" % n, "https://example.com/%d/some.path" % i))
            if i % 2:
                out.append(("submodule.%s.branch" % n, "main"))
        return out

    @staticmethod
    def _config(case, pattern):
        """what `git config -z --file .gitmodules --get-regexp PATTERN` prints: the pairs whose key the pattern finds (Git: POSIX
        extended regular expression, searched anywhere in the key); None if the pattern does not compile"""
        import re
        try:
            rx = re.compile(pattern)
        except re.error:
            return None
        return "".join("%s\n%s\0" % (k, v) for k, v in VcsCannedStream._gitmodules(case) if rx.search(k))

    def _fake(self, case, lay, calls):
        kind = case["kind"]

        def run(command, logger, cwd=None, **kw):
            args = [str(x) for x in command[1:]]
            here = os.path.realpath(os.path.join(os.getcwd(), str(cwd)))
            calls.append([args, here])
            rel = os.path.relpath(here, lay.root)
            inside = not rel.startswith("..")
            below = () if rel == "." else tuple(rel.split("/"))
            if not inside:      # started outside the repository
                return subprocess.CompletedProcess(command, 128, b"", b"fatal: not a repository")
            raw1, raw2 = self._raw(case, lay, below)
            if kind == "git" and "rev-parse" in args and "--show-toplevel" in args:
                # the canned repositories have their top at the project root (a root below the top: stream vcsgit)
                return subprocess.CompletedProcess(command, 0, (lay.root + "\n").encode("utf-8"), b"")
            listing_cmd = {"git": "ls-files", "hg": "status", "jj": "files", "pijul": "list"}[kind]
            if listing_cmd in args:
                zero = ("-z" in args) if kind == "git" else ("--print0" in args or "-0" in args) if kind == "hg" else False
                if kind in ("git", "hg") and not zero:
                    raw1 = raw1.replace("\0", "\n")
                return subprocess.CompletedProcess(command, 0, raw1.encode("utf-8"), b"")
            if kind == "git" and "config" in args:
                if "--get-regexp" in args and args.index("--get-regexp") + 1 < len(args):
                    # the emulated program answers the question it is asked: the keys the given pattern finds
                    raw2 = self._config(case, args[args.index("--get-regexp") + 1])
                    if raw2 is None:
                        return subprocess.CompletedProcess(command, 6, b"", b"error: invalid key pattern")
                elif "--list" in args or "-l" in args:
                    raw2 = self._config(case, "")
                if "-z" not in args:
                    raw2 = raw2.replace("\n", " ").replace("\0", "\n")
                return subprocess.CompletedProcess(command, 0 if raw2 else 1, raw2.encode("utf-8"), b"")
            calls[-1].append("unknown")
            return subprocess.CompletedProcess(command, 1, b"", b"unknown command")
        return run

    def impl(self, case):
        from reuse import vcs
        cls = strategy_class(case["kind"])
        with cli.scratch("rv-vcs-") as top:
            lay = Layout(top, case["cwd"], case["rootsp"], case.get("links", ()))
            calls = []
            spelled = []
            for comps, form in case["queries"]:
                if comps is None:
                    spelled.append(os.path.join(lay.top, "elsewhere", "x"))
                elif not comps:
                    spelled.append(lay.spell_query([], form if form != "updown" and form != "noisy" else "walk"))
                else:
                    spelled.append(lay.spell_query(comps, form))
            raw1, raw2 = self._raw(case, lay)
            answers = []
            logging.disable(logging.CRITICAL)
            try:
                with cli.chdir(lay.cwd), patched(vcs, execute_command=self._fake(case, lay, calls)), patched(cls, EXE="/usr/bin/" + case["kind"]):
                    try:
                        st = cls(lay.rootsp)
                    except IndexError:
                        st = None
                    if st is None:
                        answers = "IndexError"
                    else:
                        for q in spelled:
                            try:
                                answers.append(("1" if st.is_ignored(q) else "0") + ("1" if st.is_submodule(q) else "0"))
                            except Exception as e:  # noqa
                                answers.append("EXC:%s" % type(e).__name__)
                        answers = " ".join(answers)
            finally:
                logging.disable(logging.NOTSET)
            facts = {"cwd": lay.cwd, "root": lay.rootsp, "raw1": raw1, "raw2": raw2, "queries": spelled}
            self._facts[json.dumps(case, sort_keys=True)] = facts
            unknown = sorted({" ".join(c[0]) for c in calls if c[-1] == "unknown"})
            return json.dumps({"answers": answers, "facts": facts, "unknown": unknown})

    def model_lines(self, case):
        f = self._facts.get(json.dumps(case, sort_keys=True))
        if f is None:
            return []
        return ["vcsq\t%s\t%s\t%s\t%s\t%s\t%s" % (case["kind"], enc(f["cwd"]), enc(f["root"]), enc(f["raw1"]), enc(f["raw2"]),
                                                   enc_list(f["queries"]))]

    def agree(self, case, impl_out, model_out):
        if impl_out.startswith("EXC"):
            return False
        r = json.loads(impl_out)
        # a command the emulation does not know: the strategy no longer asks what the model reads — not comparable
        return r["answers"] == model_out and not r.get("unknown")

    # -- generator ground truth ---------------------------------------------------
    @staticmethod
    def truth(case, comps):
        """(ignored, submodule) the property demands for the root-relative path `comps`; None where it demands nothing"""
        kind = case["kind"]
        listed = {tuple(e[0]) for e in case["entries"]}
        c = tuple(comps)
        if kind in ("git", "hg"):
            # below a listed directory the walk never asks (the directory is pruned); the listing need not repeat its content
            if any(c[:k] in listed for k in range(1, len(c))):
                ign = None
            else:
                ign = c in listed
        elif kind == "jj":
            ign = not any(t[:len(c)] == c for t in listed)
        else:
            ign = c not in listed
        sub = c in {tuple(s[1]) for s in case["subs"]} if kind == "git" else False
        return ign, sub

    def oracle(self, case, impl_out):
        if impl_out.startswith("EXC"):
            return "vcs-crash: " + impl_out
        r = json.loads(impl_out)
        if r.get("unknown"):
            return None     # the emulated program was asked something else: reported as a broken correspondence, not judged here
        if r["answers"] == "IndexError":
            return "vcs-crash: IndexError while reading the submodule configuration %r" % r["facts"]["raw2"]
        answers = r["answers"].split(" ")
        for (comps, form), q, a in zip(case["queries"], r["facts"]["queries"], answers):
            if a.startswith("EXC"):
                return "vcs-crash: %s for path %r" % (a, q)
            if not comps or form == "updown":
                continue
            ign, sub = self.truth(case, comps)
            if ign is not None and (a[0] == "1") != ign:
                return ("vcs-ignored-differs: %s strategy, process in %r, root %r, listing %r: is_ignored(%r) is %s, but the path %s"
                        % (case["kind"], r["facts"]["cwd"], r["facts"]["root"], r["facts"]["raw1"], q, a[0] == "1",
                           ("is an entry of the listing" if case["kind"] in ("git", "hg") else "is not tracked, nor a directory with tracked files")
                           if ign else
                           ("is no entry of the listing" if case["kind"] in ("git", "hg") else "is tracked (or contains tracked files)")))
            if (a[1] == "1") != sub:
                links = case.get("links", ()) if case["cwd"] in ("top", "sibling") else ()
                kind = ("vcs-submodule-cwd-link" if any(comps == [l[0]] for l in links) else
                        "vcs-submodule-linebreak" if any(has_linebreak(x[1]) for x in case["subs"]) else "vcs-submodule-differs")
                return ("%s: process in %r%s, root %r, .gitmodules paths %r: is_submodule(%r) is %s, expected %s"
                        % (kind, r["facts"]["cwd"], "".join(" (which has a symbolic link %r -> %r)" % tuple(l) for l in links),
                           r["facts"]["root"], r["facts"]["raw2"], q, a[1] == "1", sub))
        return None

    def nontrivial(self, case, impl_out):
        if impl_out.startswith("EXC"):
            return None
        a = json.loads(impl_out)["answers"]
        return (case["kind"], case["cwd"], case["rootsp"], a) if "1" in a and "0" in a else None

    def show(self, case):
        return case


# --------------------------------------------------------------------------
# stream `vcsgit`: real Git repositories, raw outputs captured


def _git(args, cwd, input=None, global_config="/dev/null"):
    return subprocess.run(["git"] + args, cwd=cwd, capture_output=True, input=input,
                          env={**os.environ, "GIT_CONFIG_GLOBAL": global_config, "GIT_CONFIG_SYSTEM": "/dev/null",
                               "GIT_AUTHOR_NAME": "t", "GIT_AUTHOR_EMAIL": "t@e", "GIT_COMMITTER_NAME": "t", "GIT_COMMITTER_EMAIL": "t@e"})


# -- several submodules per repository ----------------------------------------------------------------------------

#: submodule paths: one to three components, with dots, blanks, dashes, non-ASCII; none is matched by an ignore pattern of the
#: generators, none lies below another
SUB_PATHS = ["vendor/lib.v2", "jquery.js", "deps/foo-1.2", "third party/x y", "a.b/c.d", "ext/path", "v1.2.3", "plug.in/core.d",
             "Ünï/cö.dé", "vendor/plain", "sm", "ext/deep/er.mod"]
#: names given with `git submodule add --name` (otherwise the name is the path)
SUB_ALT_NAMES = ["libv2", "my.name", "name with space", "x.path", "dotted.name.v2", "UP.per/low.er", "n.url", "plain"]
#: content of every generated submodule (names no ignore pattern of the generators matches; one empty file)
SUB_CONTENT = [("m.py", 3), ("data.bin", 9), ("inc/h.py", 2), ("NOTES", 4), ("empty.py", 0)]
SUB_KINDS = ("manual", "gitfile", "embedded", "gitlink", "real", "real")


def plan_submodules(seed):
    """0-3 further submodules of a generated repository: [name, path, kind]; kind = how the directory comes to be one:
    `manual` (plain directory + .gitmodules entry), `gitfile` (with a .git file), `embedded` (a repository of its own, not added),
    `gitlink` (the same, added to the index of the outer repository), `real` (`git submodule add [--name N] URL PATH`).  Drawn from a
    generator of its own so that the trees of older seeds stay what they were."""
    import random
    r = random.Random(seed ^ 0x5AB5)
    paths = r.sample(SUB_PATHS, r.choice([0, 1, 1, 2, 2, 3]))
    out = []
    for i, p in enumerate(paths):
        name = p if r.random() < 0.5 else r.choice(SUB_ALT_NAMES) + ("" if i == 0 else ".%d" % i)
        out.append([name, p, r.choice(SUB_KINDS)])
    return out


def build_submodules(top, root, plan, real_ok=True, worktree=None):
    """create the planned submodules below `root` (a Git repository exists already; `root` is its top when real_ok) and register
    them where Git itself keeps them: in the .gitmodules at the top of the work tree (`worktree`, default `root`), with paths
    relative to that top — through Git's own writer, so that quoting of names is Git's.  Returns the paths relative to `root`."""
    upstream = os.path.join(top, "upstream")
    wt = worktree or root
    for name, path, kind in plan:
        full = os.path.join(root, path)
        if kind == "real" and real_ok:
            if not os.path.isdir(upstream):
                os.makedirs(upstream)
                _fill(upstream)
                _git(["init", "-q"], upstream)
                _git(["add", "-A"], upstream)
                _git(["commit", "-q", "-m", "upstream"], upstream)
            r = _git(["-c", "protocol.file.allow=always", "submodule", "add", "-q"] + (["--name", name] if name != path else []) +
                     ["--", upstream, path], root)
            if r.returncode != 0:
                raise RuntimeError("git submodule add failed: %r" % r.stderr[-200:])
            continue
        os.makedirs(full)
        _fill(full)
        if kind == "gitfile":
            with open(os.path.join(full, ".git"), "w") as fp:
                fp.write("gitdir: ../.git/modules/nowhere\n")
        elif kind in ("embedded", "gitlink", "real"):
            _git(["init", "-q"], full)
            _git(["add", "-A"], full)
            _git(["commit", "-q", "-m", "sub"], full)
            if kind != "embedded":
                _git(["add", "--", os.path.relpath(full, root)], root)
        for k, v in (("path", os.path.relpath(full, wt)), ("url", "https://example.com/%s.git" % kind)):
            r = _git(["config", "--file", os.path.join(wt, ".gitmodules"), "submodule.%s.%s" % (name, k), v], root)
            if r.returncode != 0:
                raise RuntimeError("git config failed: %r" % r.stderr[-200:])
    return [p for _, p, _ in plan]


def _fill(d):
    for rel, size in SUB_CONTENT:
        os.makedirs(os.path.dirname(os.path.join(d, rel)), exist_ok=True)
        with open(os.path.join(d, rel), "wb") as fp:
            fp.write(b"x" * size)


def below_any(p, dirs):
    return any(p.startswith(d + "/") for d in dirs)


# -- the root reached through symbolic links ---------------------------------------------------------------------------

VIAS = ("plain", "plain", "anc", "anc", "self", "chain", "ancrel")


def linked_root(top, root, via):
    """an absolute spelling of the directory `root` (below `top`, both without symbolic links) that leads through symbolic links:
    `anc` an ancestor directory is a link (top/anc -> top), `self` the last component is one (top/self -> root), `chain` a link
    to a link and the last component (top/chain -> anc, .../self), `ancrel` an ancestor that is a relative link to `.`"""
    rel = os.path.relpath(root, top)
    if via == "plain":
        return root

    def link(name, target):
        if not os.path.lexists(os.path.join(top, name)):
            os.symlink(target, os.path.join(top, name))
    if via == "anc":
        link("anc", top)
        return os.path.join(top, "anc", rel)
    if via == "ancrel":
        link("ancrel", ".")
        return os.path.join(top, "ancrel", "ancrel", rel)
    if via == "self":
        link("self", root)
        return os.path.join(top, "self")
    if via == "chain":
        link("anc", top)
        link("chain", "anc")
        link("self", rel)
        return os.path.join(top, "chain", "self")
    raise ValueError(via)


def lint_json_files(rootsp, cwd, opts, real_root):
    """root-relative paths in files[] of `reuse --root ROOT lint --json` run in `cwd` (however the command spells them)"""
    code, out, exc = cli.run_cli(["--no-multiprocessing", "--root", rootsp] + opts + ["lint", "--json"], cwd)
    if exc is not None:
        return ["<lint failed: %s %s>" % (type(exc).__name__, str(exc)[:80])]
    try:
        rep, _ = json.JSONDecoder().raw_decode(out[out.index("{"):])
    except Exception:
        return ["<lint failed: exit %s %s>" % (code, out.strip()[-80:])]
    res = []
    for f in rep["files"]:
        for b in (cwd, real_root):
            q = os.path.realpath(os.path.join(b, f["path"]))
            if (q == real_root or q.startswith(real_root + os.sep)) and os.path.lexists(q):
                res.append(os.path.relpath(q, real_root))
                break
        else:
            res.append("<outside: %s>" % f["path"])
    return sorted(res)


def in_unignored_untracked_dir(x, ign, tracked):
    """the shape of the known finding: the topmost directory above `x` that holds no tracked file is *not* ignored itself (had
    it been, `git ls-files --directory` would have listed it as one entry and the walk would have pruned it)"""
    parts = x.split("/")
    for k in range(1, len(parts)):
        d = "/".join(parts[:k])
        if not any(t.startswith(d + "/") for t in tracked):
            return not any("/".join(parts[:j]) in ign for j in range(1, k + 1))
    return False


class VcsGitStream(Stream):
    name = "vcsgit"
    rule = ("random Git repositories (generated .gitignore hierarchies with globs, directory rules and negations; names with "
            "blanks, line breaks, non-ASCII; ignored directories, directories with only ignored files, untracked directories; a "
            "manual submodule; a user-level ignore file in 40 %), project root = top of the repository or a sub-directory, process "
            "in the root / the top / outside the repository, root spelt absolute or relative: the raw outputs of `git ls-files "
            "--exclude-standard --ignored --others --directory --no-empty-directory -z` and `git config -z --file .gitmodules "
            "--get-regexp \\.path$` are captured from the real commands (run in the root) and fed to the model; for every path "
            "on disk model = real VCSStrategyGit; the files a pruned walk reaches under the class's verdicts = those reached under "
            "`git check-ignore`'s verdicts (modulo the known finding c03-git-ignored-in-untracked-dir); the model walk on the "
            "captured outputs = Project.all_files; a second family of cases adds 0-3 further submodules and reaches the root through "
            "symbolic links as in stream `git` (ancestor link, the root a link, link to a link, relative link; absolute / relative): also "
            "there the class made by Project.from_directory answers like VCSStrategyGit(root), and Project.all_files = the covered files "
            "under `git check-ignore`'s verdicts and the registered submodule paths; non-trivial = something ignored and something reached")
    IGN = ["*.o", "build/", "/docs/gen.txt", "!keep.o", "tmp*", "src/*.log", "**/cache/", "*.tmp", "sp ace*", "é*", "/lib/"]
    NAMES = ["a.c", "b.o", "keep.o", "gen.txt", "tmp1", "x.log", "y.tmp", "README", "z.py", "sp ace.c", "sp ace.o", "é.o",
             "é.txt", "nl\nx.o", "nl\nx.c", "q\"x.o"]
    DNAMES = ["src", "build", "docs", "cache", "mod", "lib", "d ir", "ü"]
    UIGN = ["*.log", "README", "tmp*", "z.py", "lib/", "*.c"]

    def __init__(self):
        self._facts = {}

    def cases(self, tier, rng):
        for i in range(160 if tier == "thorough" else 24):
            yield {"seed": rng.randrange(1 << 30), "flags": rng.choice(["00", "10"]),
                   "rootat": rng.choice(["top", "top", "subdir"]), "cwd": rng.choice(["root", "root", "top", "outside"]),
                   "rootsp": rng.choice(["abs", "rel"])}
        # further submodules (plan_submodules) and the root reached through symbolic links (linked_root)
        for i in range(200 if tier == "thorough" else 26):
            yield {"seed": rng.randrange(1 << 30), "flags": rng.choice(["00", "00", "10"]),
                   "rootat": rng.choice(["top", "top", "subdir"]), "cwd": rng.choice(["root", "top", "outside"]),
                   "rootsp": rng.choice(["abs", "rel"]), "xsubs": 1, "via": rng.choice(VIAS)}

    def _gen(self, case):
        import random
        rng = random.Random(case["seed"])

        def tree(depth):
            out, seen = [], set()
            for _ in range(rng.randint(2, 5)):
                if rng.random() < 0.6 or depth >= 2:
                    n = rng.choice(self.NAMES)
                    node = ("f", rng.choice([1, 5]))
                else:
                    n = rng.choice(self.DNAMES)
                    node = ("d", tree(depth + 1))
                if n not in seen:
                    seen.add(n)
                    out.append((n, node))
            return out
        t = tree(0)
        if case["rootat"] == "subdir" and not any(n == "src" and node[0] == "d" for n, node in t):
            t = [(n, node) for n, node in t if n != "src"] + [("src", ("d", tree(1)))]
        ign_root = rng.sample(self.IGN, rng.randint(1, 4))
        ign_sub = rng.sample(self.IGN, rng.randint(0, 2))
        uign = rng.sample(self.UIGN, rng.randint(1, 3)) if rng.random() < 0.4 else None
        return t, ign_root, ign_sub, uign, rng

    def impl(self, case):
        from c03 import materialise
        from reuse.project import Project
        from reuse.vcs import VCSStrategyGit
        t, ign_root, ign_sub, uign, rng = self._gen(case)
        flags = case["flags"]
        with cli.scratch("rv-vcsg-") as top:
            top = os.path.realpath(top)
            repo = os.path.join(top, "repo")
            os.makedirs(repo)
            gconf = "/dev/null"
            if uign is not None:
                os.makedirs(os.path.join(top, "home"))
                gconf = os.path.join(top, "home", "gitconfig")
                with open(os.path.join(top, "home", "ignore"), "w") as fp:
                    fp.write("\n".join(uign) + "\n")
                with open(gconf, "w") as fp:
                    fp.write("[core]\n\texcludesFile = %s\n" % os.path.join(top, "home", "ignore"))
            materialise(repo, t)
            with open(os.path.join(repo, ".gitignore"), "w") as fp:
                fp.write("\n".join(ign_root) + "\n")
            if ign_sub and os.path.isdir(os.path.join(repo, "src")):
                with open(os.path.join(repo, "src", ".gitignore"), "w") as fp:
                    fp.write("\n".join(ign_sub) + "\n")
            root = os.path.join(repo, "src") if case["rootat"] == "subdir" else repo
            subs = []
            if os.path.isdir(os.path.join(root, "mod")):
                subs = ["mod"]
                # .gitmodules is a file at the top of the work tree and its paths are relative to the top (that is where Git
                # writes and reads it), also when the project root is a directory below the top
                with open(os.path.join(repo, ".gitmodules"), "w") as fp:
                    fp.write('[submodule "mod"]\n\tpath = %s\n\turl = https://example.com/mod.git\n' % os.path.relpath(os.path.join(root, "mod"), repo))
            _git(["init", "-q"], repo)
            xsubs = build_submodules(top, root, plan_submodules(case["seed"]) if case.get("xsubs") else [], real_ok=root == repo, worktree=repo)
            subs = subs + xsubs
            allf = []
            for dp, dn, fn in os.walk(repo):
                dn[:] = [d for d in dn if d != ".git"]
                for f in fn:
                    allf.append(os.path.relpath(os.path.join(dp, f), repo))
            allf.sort()
            for f in allf:
                r = rng.random()
                if r < 0.5:
                    _git(["add", "--", f], repo)
                elif r < 0.6:
                    _git(["add", "-f", "--", f], repo)
            cwd = {"root": root, "top": repo, "outside": top}[case["cwd"]]
            rootsp = linked_root(top, root, case.get("via", "plain"))
            rootsp = rootsp if case["rootsp"] == "abs" else os.path.relpath(rootsp, cwd)
            # every path below the root (directories and files), top-down
            paths, kinds = [], {}
            for dp, dn, fn in os.walk(root):
                dn[:] = sorted(d for d in dn if d != ".git")
                for x in dn:
                    p = os.path.relpath(os.path.join(dp, x), root)
                    paths.append(p)
                    kinds[p] = "d"
                for x in sorted(fn):
                    p = os.path.relpath(os.path.join(dp, x), root)
                    paths.append(p)
                    kinds[p] = "f"
            logging.disable(logging.CRITICAL)
            saved_env = {k: os.environ.get(k) for k in ("GIT_CONFIG_GLOBAL", "GIT_CONFIG_SYSTEM")}
            os.environ["GIT_CONFIG_GLOBAL"] = gconf      # the user's configuration as the tool's Git finds it
            os.environ["GIT_CONFIG_SYSTEM"] = "/dev/null"
            try:
                with cli.chdir(cwd):
                    st = VCSStrategyGit(rootsp)
                    spelled = [str(Path(rootsp) / p) for p in paths]
                    answers = [("1" if st.is_ignored(q) else "0") + ("1" if st.is_submodule(q) else "0") for q in spelled]
                    project = Project.from_directory(rootsp, include_submodules=flags[0] == "1", include_meson_subprojects=flags[1] == "1")
                    strategy_name = type(project.vcs_strategy).__name__
                    # the strategy object the project made for itself answers like the one made here
                    panswers = [("1" if project.vcs_strategy.is_ignored(q) else "0") + ("1" if project.vcs_strategy.is_submodule(q) else "0")
                                for q in spelled]
                    got = sorted(os.path.relpath(str(p), rootsp) for p in project.all_files())
            finally:
                logging.disable(logging.NOTSET)
                for k, v in saved_env.items():
                    if v is None:
                        os.environ.pop(k, None)
                    else:
                        os.environ[k] = v
            # the raw outputs, captured from the real commands started in the root, with the user's configuration
            raw1 = _git(["ls-files", "--exclude-standard", "--ignored", "--others", "--directory", "--no-empty-directory", "-z"],
                        root, global_config=gconf).stdout.decode("utf-8")
            raw2 = _git(["config", "-z", "--file", os.path.join(repo, ".gitmodules"), "--get-regexp", GITMODULES_KEY_PATTERN], root, global_config=gconf).stdout.decode("utf-8")
            # the model reads submodule paths relative to the project root: rebase them from the top of the work tree (os.path.relpath,
            # the step the tool itself takes after `git rev-parse --show-toplevel`; identity when the root is the top)
            raw2 = "".join("%s\n%s\0" % (e.split("\n", 1)[0], os.path.relpath(os.path.join(repo, e.split("\n", 1)[1]), root))
                           for e in raw2.split("\0") if "\n" in e)
            # (Git refuses to answer for a path inside a submodule of its index; the generated submodules hold no name an ignore pattern matches)
            asked = [x for x in paths if not below_any(x, xsubs)]
            r = _git(["check-ignore", "--stdin", "-z"], root, input=("\0".join(asked)).encode(), global_config=gconf)
            if r.returncode not in (0, 1):
                raise RuntimeError("git check-ignore failed: %r" % r.stderr[-200:])
            ignored = sorted(x for x in r.stdout.decode().split("\0") if x)
            tracked = sorted(x for x in _git(["ls-files", "-z"], root).stdout.decode().split("\0") if x)

            def read(d):
                out = []
                for n in sorted(os.listdir(d)):
                    p = os.path.join(d, n)
                    if n == ".git":
                        out.append((n, ("d", [])) if os.path.isdir(p) else (n, ("f", 1)))
                    elif os.path.isdir(p):
                        out.append((n, ("d", read(p))))
                    else:
                        out.append((n, ("f", os.path.getsize(p))))
                return out
            facts = {"cwd": cwd, "root": rootsp, "raw1": raw1, "raw2": raw2, "queries": spelled, "disk": read(root),
                     "rootname": Path(rootsp).name}
            self._facts[json.dumps(case, sort_keys=True)] = facts
            return json.dumps({"answers": " ".join(answers), "panswers": " ".join(panswers), "paths": paths, "kinds": [kinds[p] for p in paths], "ignored": ignored,
                               "tracked": tracked, "subs": subs, "got": got, "strategy": strategy_name, "facts": facts})

    def model_lines(self, case):
        from c03 import tree_tokens
        f = self._facts.get(json.dumps(case, sort_keys=True))
        if f is None:
            return []

        def fix(ch):
            return [(n, ("d", fix(node[1])) if node[0] == "d" else tuple(node)) for n, node in ch]
        return ["vcsq\tgit\t%s\t%s\t%s\t%s\t%s" % (enc(f["cwd"]), enc(f["root"]), enc(f["raw1"]), enc(f["raw2"]), enc_list(f["queries"])),
                "vcswalk\tgit\t%s0\t%s\t%s\t%s\t%s\t%s\t%s" % (case["flags"], enc(f["rootname"]), enc(f["cwd"]), enc(f["root"]),
                                                              " ".join(tree_tokens(fix(f["disk"]))), enc(f["raw1"]), enc(f["raw2"]))]

    def model_out(self, case, outs):
        return json.dumps([outs[0], sorted(dec_list(outs[1])) if outs[1] != "IndexError" else outs[1]])

    def agree(self, case, impl_out, model_out):
        if impl_out.startswith("EXC"):
            return False
        r = json.loads(impl_out)
        m = json.loads(model_out)
        return (r["answers"] or "") == (m[0] or "") and r["got"] == m[1]

    @staticmethod
    def _reach(paths, kinds, verdict):
        """the files a top-down walk that prunes at every path with verdict True arrives at"""
        out = []
        for p, k in zip(paths, kinds):
            parts = p.split("/")
            if k == "f" and not any(verdict("/".join(parts[:i])) for i in range(1, len(parts) + 1)):
                out.append(p)
        return sorted(out)

    def oracle(self, case, impl_out):
        if impl_out.startswith("EXC"):
            return "vcsgit-crash: " + impl_out
        r = json.loads(impl_out)
        if r["strategy"] != "VCSStrategyGit":
            return "vcsgit-strategy: a directory inside a Git repository (root %r, process in %r) gets %s" % (r["facts"]["root"], r["facts"]["cwd"], r["strategy"])
        answers = dict(zip(r["paths"], r["answers"].split(" ") if r["answers"] else []))
        ign = set(r["ignored"])
        if r.get("panswers", r["answers"]) != r["answers"]:
            pa = dict(zip(r["paths"], r["panswers"].split(" ")))
            d = [p for p in r["paths"] if pa[p] != answers[p]]
            # judged below through the files Project.all_files yields; said here when nothing else fails
            differs = ("vcsgit-project-strategy-differs: root %r, process in %r: the strategy object of Project.from_directory answers %s "
                       "for %r, VCSStrategyGit(root) answers %s (is_ignored, is_submodule)" % (r["facts"]["root"], r["facts"]["cwd"], pa[d[0]], d[0], answers[d[0]]))
        else:
            differs = None
        by_class = self._reach(r["paths"], r["kinds"], lambda p: answers[p][0] == "1")
        by_git = self._reach(r["paths"], r["kinds"], lambda p: p in ign)
        if by_class != by_git:
            a, b = set(by_class), set(by_git)
            # kept per case: classify() is asked after all cases have been judged
            self.__dict__.setdefault("_seen", {})[json.dumps(case, sort_keys=True)] = (sorted(a - b), sorted(b - a), r)
            return ("vcsgit-reach-differs: root %r, process in %r: under VCSStrategyGit.is_ignored a pruned walk reaches %s although `git "
                    "check-ignore` calls them (or a directory above them) ignored, and misses %s which it does not"
                    % (r["facts"]["root"], r["facts"]["cwd"], sorted(a - b), sorted(b - a)))
        for p, k in zip(r["paths"], r["kinds"]):
            want = k == "d" and p in r["subs"]
            if (answers[p][1] == "1") != want:
                return "vcsgit-submodule-differs: root %r, process in %r: is_submodule(%r) is %s, .gitmodules lists %s" % (
                    r["facts"]["root"], r["facts"]["cwd"], p, answers[p][1] == "1", r["subs"])
        # the files the project examines = the covered files under Git's own verdicts and the registered submodules
        from c03 import spec_covered

        def fix(ch):
            return [(n, ("d", fix(node[1])) if node[0] == "d" else tuple(node)) for n, node in ch]
        want = sorted(spec_covered(fix(r["facts"]["disk"]), case["flags"], frozenset(r["ignored"]), frozenset(r["subs"])))
        if r["got"] != want:
            a, b = set(r["got"]), set(want)
            self.__dict__.setdefault("_seen", {})[json.dumps(case, sort_keys=True)] = (sorted(a - b), sorted(b - a), r)
            return ("vcsgit-covered-set-differs: root %r, process in %r, submodules %s%s: Project.all_files examines %s although excluded / ignored, "
                    "skips the covered %s" % (r["facts"]["root"], r["facts"]["cwd"], r["subs"], "" if case["flags"][0] == "0" else " (included)",
                                              sorted(a - b), sorted(b - a)))
        return differs

    def classify(self, case, failure):
        if (failure.startswith("vcsgit-reach-differs") and failure.rstrip().endswith("misses [] which it does not")) or (
                failure.startswith("vcsgit-covered-set-differs") and failure.rstrip().endswith("skips the covered []")):
            if json.dumps(case, sort_keys=True) not in getattr(self, "_seen", {}):
                return None
            extra, _, r = self._seen[json.dumps(case, sort_keys=True)]
            ign, tracked = set(r["ignored"]), r["tracked"]

            # (paths are relative to the project root; when the root is the sub-directory src/ of the work tree, the directory without
            # a tracked file may be the root itself: judge the shape on paths relative to the top)
            pre = "src/" if case.get("rootat") == "subdir" else ""
            if extra and all((x in ign or any(x.startswith(i + "/") for i in ign)) and
                             in_unignored_untracked_dir(pre + x, {pre + i for i in ign}, [pre + t for t in tracked]) for x in extra):
                return "c03-git-ignored-in-untracked-dir"
        return None

    def nontrivial(self, case, impl_out):
        if impl_out.startswith("EXC"):
            return None
        r = json.loads(impl_out)
        return (r["answers"], case["cwd"], case["rootat"]) if r["ignored"] and r["got"] else None

    def show(self, case):
        t, ign_root, ign_sub, uign, _ = self._gen(case)
        return {"tree": t, "gitignore": ign_root, "src/.gitignore": ign_sub, "user_ignore_file": uign,
                **{k: case[k] for k in ("flags", "rootat", "cwd", "rootsp", "via") if k in case},
                **({"further_submodules [name, path, kind]": plan_submodules(case["seed"])} if case.get("xsubs") else {})}


# --------------------------------------------------------------------------
# stream `vcsdetect`: which strategy, which root

ORDER = ("none", "git", "hg", "jj", "pijul")


class VcsDetectStream(Stream):
    name = "vcsdetect"
    exhaustive = True
    rule = ("every combination of {program installed} x {in_repo(root)} for Git/Mercurial/Jujutsu/Pijul (256): the real "
            "Project._detect_vcs_strategy with EXE and in_repo patched vs the model (driver op vcsdetect) vs the oracle (a strategy is "
            "chosen iff some installed program says the root is in its repository; the chosen one is installed and in its "
            "repository; Git wins when it qualifies); every combination of {installed} x {find_root finds something} (256): "
            "vcs.find_root vs model; VCSStrategyGit.find_root on generated return codes / outputs / working directories; and, "
            "unpatched, real directories: top of a Git repository, a sub-directory of one (no .git entry of its own), a plain "
            "directory, each from inside and outside; non-trivial = a strategy other than None chosen")

    def cases(self, tier, rng):
        for exe in range(16):
            for inr in range(16):
                yield {"op": "detect", "exe": exe, "inrepo": inr}
        for exe in range(16):
            for found in range(16):
                yield {"op": "findroot", "exe": exe, "found": found}
        for rc in (0, 1, 128):
            for out in ("/w/repo\n", "/w/repo/deep/er\n", "/w\n", "/\n", "/other/place\n", "/w/re po/é\n"):
                for cwd in ("/w/repo", "/w/repo/deep", "/w/repo/deep/er/still", "relative", "."):
                    yield {"op": "rootcmd", "rc": rc, "stdout": out, "cwdarg": cwd}
        for where in ("top", "subdir", "plain"):
            for cwd in ("in", "out"):
                yield {"op": "real", "where": where, "cwd": cwd}

    @staticmethod
    def _bits(n):
        """bit string over (none, git, hg, jj, pijul); None never qualifies"""
        return "0" + "".join("1" if n >> i & 1 else "0" for i in range(4))

    def impl(self, case):
        from reuse import vcs
        from reuse.project import Project
        classes = [strategy_class(k) for k in ORDER[1:]]
        logging.disable(logging.CRITICAL)
        try:
            with contextlib.ExitStack() as stack:
                if case["op"] == "detect":
                    top = stack.enter_context(cli.scratch("rv-vcsd-"))
                    stack.enter_context(patched(vcs, execute_command=lambda command, logger, cwd=None, **kw: subprocess.CompletedProcess(command, 0, b"", b"")))
                    for i, c in enumerate(classes):
                        stack.enter_context(patched(c, EXE="/usr/bin/x" if case["exe"] >> i & 1 else None,
                                                    in_repo=classmethod(lambda cls, directory, _v=bool(case["inrepo"] >> i & 1): _v)))
                    return type(Project._detect_vcs_strategy(top)).__name__
                if case["op"] == "findroot":
                    for i, c in enumerate(classes):
                        stack.enter_context(patched(c, EXE="/usr/bin/x" if case["exe"] >> i & 1 else None,
                                                    find_root=classmethod(lambda cls, cwd=None, _v=(Path("found-by-%s" % ORDER[i + 1]) if case["found"] >> i & 1 else None): _v)))
                    r = vcs.find_root()
                    return "none" if r is None else "some:" + enc(str(r))
                if case["op"] == "rootcmd":
                    top = os.path.realpath(stack.enter_context(cli.scratch("rv-vcsd-")))
                    os.makedirs(os.path.join(top, "relative"))
                    stack.enter_context(cli.chdir(top))
                    stack.enter_context(patched(vcs, execute_command=lambda command, logger, cwd=None, **kw: subprocess.CompletedProcess(
                        command, case["rc"], case["stdout"].encode(), b"")))
                    stack.enter_context(patched(Path, is_dir=lambda self: True))
                    r = vcs.VCSStrategyGit.find_root(case["cwdarg"])
                    self._top = top
                    return json.dumps({"top": top, "r": "none" if r is None else "some:" + enc(str(r))})
                # real directories, nothing patched
                top = os.path.realpath(stack.enter_context(cli.scratch("rv-vcsd-")))
                repo = os.path.join(top, "repo")
                os.makedirs(os.path.join(repo, "sub", "deeper"))
                os.makedirs(os.path.join(top, "plain"))
                _git(["init", "-q"], repo)
                root = {"top": repo, "subdir": os.path.join(repo, "sub"), "plain": os.path.join(top, "plain")}[case["where"]]
                stack.enter_context(cli.chdir(root if case["cwd"] == "in" else top))
                sp = root if case["cwd"] == "out" else "."
                found = vcs.find_root(sp)
                return "%s %s" % (type(Project._detect_vcs_strategy(sp)).__name__,
                                  # find_root answers relative to the directory it was asked about
                                  "none" if found is None else os.path.relpath(os.path.realpath(os.path.join(os.getcwd(), sp, str(found))), top))
        finally:
            logging.disable(logging.NOTSET)

    def model_lines(self, case):
        if case["op"] == "detect":
            return ["vcsdetect\t%s\t%s" % (self._bits(case["exe"]), self._bits(case["inrepo"]))]
        if case["op"] == "findroot":
            fs = ["-"] + [enc("found-by-%s" % ORDER[i + 1]) if case["found"] >> i & 1 else "-" for i in range(4)]
            return ["vcsfindroot\t%s\t%s" % (self._bits(case["exe"]), "\t".join(fs))]
        return []

    def agree(self, case, impl_out, model_out):
        return impl_out == model_out

    def oracle(self, case, impl_out):
        if impl_out.startswith("EXC"):
            return "vcsdetect-crash: " + impl_out
        names = {"git": "VCSStrategyGit", "hg": "VCSStrategyHg", "jj": "VCSStrategyJujutsu", "pijul": "VCSStrategyPijul"}
        if case["op"] == "detect":
            eligible = [names[ORDER[i + 1]] for i in range(4) if case["exe"] >> i & 1 and case["inrepo"] >> i & 1]
            if not eligible and impl_out != "VCSStrategyNone":
                return "vcsdetect-choice: no installed program says the root is in its repository, yet %s is chosen" % impl_out
            if eligible and impl_out not in eligible:
                return "vcsdetect-choice: %s qualify (installed and in_repo), yet %s is chosen" % (eligible, impl_out)
            if "VCSStrategyGit" in eligible and impl_out != "VCSStrategyGit":
                return "vcsdetect-choice: Git is installed and the root is in a Git repository, yet %s is chosen" % impl_out
            return None
        if case["op"] == "findroot":
            answers = ["found-by-%s" % ORDER[i + 1] for i in range(4) if case["exe"] >> i & 1 and case["found"] >> i & 1]
            if not answers:
                return None if impl_out == "none" else "vcsdetect-root: no installed program finds a root, yet %s" % impl_out
            if impl_out == "none" or impl_out[5:] not in [enc(a) for a in answers]:
                return "vcsdetect-root: installed programs find %s, vcs.find_root answers %s" % (answers, impl_out)
            return None
        if case["op"] == "rootcmd":
            from core import run_driver
            r = json.loads(impl_out)
            # ground truth: the root the program printed, seen from the directory asked about
            if case["rc"] != 0:
                want = "none"
            else:
                start = os.path.normpath(os.path.join(r["top"], case["cwdarg"]))
                want = "some:" + enc(os.path.relpath(case["stdout"][:-1], start))
            if r["r"] != want:
                return "vcsdetect-root: git rev-parse --show-toplevel printed %r (exit %d) for %r, find_root answers %s" % (
                    case["stdout"], case["rc"], case["cwdarg"], r["r"])
            mo = run_driver(["vcsrootcmd\t%s\t%s\t%d\t%s" % (enc(r["top"]), enc(case["cwdarg"]), case["rc"], enc(case["stdout"]))])[0]
            if mo != r["r"]:
                return "vcsdetect-model-differs: model %s, VCSStrategyGit.find_root %s" % (mo, r["r"])
            return None
        want = {"top": "VCSStrategyGit repo", "subdir": "VCSStrategyGit repo", "plain": "VCSStrategyNone none"}[case["where"]]
        if impl_out != want:
            return "vcsdetect-real: %s directory, process %sside: strategy and root are %r, expected %r" % (case["where"], case["cwd"], impl_out, want)
        return None

    def nontrivial(self, case, impl_out):
        return (case["op"], impl_out) if "None" not in impl_out and impl_out != "none" else None
