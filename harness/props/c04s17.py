"""C04, two more regions of the input space; both look several files up in one project and judge each by `spec_items`.

`dep5dot`  — ".reuse/dep5: the last Files paragraph that matches the file's path applies" for paths that *begin with a dot*: `.ci/build.cfg`,
             `.github/workflows/test.yml`, `.config/x.ini`, `..data/y.txt`, `.a/.b/c.txt`, `.x` / `.editorconfig` at the root, a dot
             directory further down — each next to its look-alike without the dot(s) (`ci/build.cfg`, `data/y.txt`, `a/.b/c.txt`,
             `a/b/c.txt`, `x` …).  The dep5 file names both members of a pair by paragraphs of their own (the path literally, `dir/*`,
             `.c*`, `.*`, `*.cfg`) in either order around a `Files: *` paragraph.  The generator writes every pattern from a tagged
             form whose meaning it knows (`*` = any run of characters, `/` included; everything else literal), so the matching
             paragraphs — and the last of them — are ground truth, not computed by any glob code.
`tomldup`  — "within one REUSE.toml the last matching [[annotations]] table applies" when tables *repeat a `path` value*: 3-7 tables
             in the root REUSE.toml and optionally 2-5 in a nested one (vendor/ or src/), among them 2-3 tables with the identical
             path list, the same set in another order, or overlapping lists, with tables of other paths between and after them; every
             table has its own precedence and information.  Patterns again come from tagged forms (`**`, `d/**`, `**/*.c`, `*.c`, a
             literal path).  Eight files are looked up; per level the last table with a matching pattern is the truth.
"""
import json
import os
import random

from core import Stream, enc, dec, enc_list
import cli
import c04 as base

OWN_BODY = {"n": "just text\n", "C": "# SPDX-FileCopyrightText: 2019 Own\ntext\n", "L": "# SPDX-License-Identifier: Unlicense\ntext\n",
            "B": "# SPDX-FileCopyrightText: 2019 Own\n# SPDX-License-Identifier: Unlicense\ntext\n"}
OWN_TRUTH = {"n": ([], []), "C": (["SPDX-FileCopyrightText: 2019 Own"], []), "L": ([], ["Unlicense"]),
             "B": (["SPDX-FileCopyrightText: 2019 Own"], ["Unlicense"])}


def pretty(s):
    return sorted((x.split("|")[0], x.split("|")[1], dec(x.split("|")[2])) for x in s.split(" ") if x.count("|") == 2)


def look_up(root, paths, via, label):
    """Attribution of every path of `paths` (in that order) -> {path: canonical item string} or "EXC:…".
    via "project": one Project object, reuse_info_of per path; via "lint": the real `reuse lint --json`.
    label(path, source_path, source_type) -> "toml:<i>" | "own" | None"""
    import logging
    import warnings
    res = {}
    if via == "project":
        from reuse.project import Project
        logging.disable(logging.CRITICAL)
        try:
            with cli.chdir(root), warnings.catch_warnings():
                warnings.simplefilter("ignore")
                project = Project.from_directory(root)
                for path in paths:
                    items = set()
                    for info in project.reuse_info_of(os.path.join(root, path)):
                        st = info.source_type.value if info.source_type else None
                        lab = label(path, info.source_path, st) or "bad-src:%s:%s" % (info.source_path, st)
                        if info.path != path:
                            lab = "bad-path:%s" % info.path
                        for c in info.copyright_lines:
                            items.add(("C", lab, c))
                        for e in info.spdx_expressions:
                            items.add(("L", lab, str(e)))
                    res[path] = base.canon(items)
        finally:
            logging.disable(logging.NOTSET)
        return res
    saved = os.environ.get("_SUPPRESS_DEP5_WARNING")
    os.environ["_SUPPRESS_DEP5_WARNING"] = "1"
    try:
        code, out, exc = cli.run_cli(["--no-multiprocessing", "lint", "--json"], root)
    finally:
        if saved is None:
            os.environ.pop("_SUPPRESS_DEP5_WARNING", None)
        else:
            os.environ["_SUPPRESS_DEP5_WARNING"] = saved
    if exc is not None:
        return "EXC:%s:%s" % (type(exc).__name__, str(exc)[:100])
    try:
        rep, _ = json.JSONDecoder().raw_decode(out[out.index("{"):])
    except Exception:
        return "EXC:output:exit %s %s" % (code, out[:100])
    rr = os.path.realpath(root)
    for path in paths:
        entries = [f for f in rep["files"] if os.path.realpath(os.path.join(root, f["path"])) == os.path.join(rr, path)]
        if len(entries) != 1:
            return "EXC:entries:%d entries for %s in the lint report" % (len(entries), path)
        items = []
        for kind, key in (("C", "copyrights"), ("L", "spdx_expressions")):
            for it in entries[0][key]:
                lab = label(path, it.get("source"), it.get("source_type")) or "bad-src:%s:%s" % (it.get("source"), it.get("source_type"))
                items.append((kind, lab, it["value"]))
        res[path] = " ".join(sorted("%s|%s|%s" % (k, s, enc(v)) for k, s, v in items))
    return res


def join_answers(paths, res):
    if isinstance(res, str):
        return res
    return " || ".join("%d=%s" % (k, res[p]) for k, p in enumerate(paths))


class ManyFilesStream(Stream):
    """shared: a case is a seed; `_gen` -> (files dict, [(path, levels, own truth)], look-up order, route)"""

    def cases(self, tier, rng):
        for _ in range(self.N_THOROUGH if tier == "thorough" else self.N_QUICK):
            yield {"seed": rng.randrange(1 << 30)}

    def model_lines(self, case):
        files, looked, order, via = self._gen(case)
        lines = []
        for path, levels, own in looked:
            fields = ["precedence", enc_list(own[0]), enc_list(own[1])]
            for lv in levels:
                fields += ["-", "~", "~"] if lv is None else [lv[0], enc_list(lv[1]), enc_list(lv[2])]
            lines.append("\t".join(fields))
        return lines

    def model_out(self, case, outs):
        return " || ".join("%d=%s" % (k, " ".join(sorted(x for x in o.split(" ") if x))) for k, o in enumerate(outs))

    def oracle(self, case, impl_out):
        if impl_out.startswith("EXC"):
            return self.name + "-crash: " + impl_out
        files, looked, order, via = self._gen(case)
        for part in impl_out.split(" || "):
            head, got = part.split("=", 1)
            path, levels, own = looked[int(head)]
            want = base.canon(base.spec_items(levels, own))
            if got != want:
                return "%s: %s (%s): tool attributes %s, specification says %s%s" % (
                    self.FAILURE, path, "Project.reuse_info_of" if via == "project" else "`reuse lint --json`", pretty(got), pretty(want),
                    self._why(case, path))
        return None

    def _why(self, case, path):
        return ""

    def show(self, case):
        files, looked, order, via = self._gen(case)
        return {"files": files, "looked_up": [looked[k][0] for k in order], "route": via}


# --------------------------------------------------------------------------
# dep5: paths that begin with a dot

#: (dotted path, look-alikes without the leading dot(s) / without any dot directory)
DOT_PAIRS = [
    (".ci/build.cfg", ["ci/build.cfg"]),
    (".github/workflows/test.yml", ["github/workflows/test.yml"]),
    (".config/x.ini", ["config/x.ini"]),
    ("..data/y.txt", ["data/y.txt", ".data/y.txt"]),
    (".a/.b/c.txt", ["a/.b/c.txt", "a/b/c.txt"]),
    (".x", ["x"]),
    (".editorconfig", ["editorconfig"]),
    (".ci/.hidden/z.sh", ["ci/.hidden/z.sh", "ci/hidden/z.sh"]),
    ("...dots/w.md", ["dots/w.md"]),
    (".mailmap.txt", ["mailmap.txt"]),
]
PLAIN_FILES = ["README.txt", "src/main.c", "src/.cache/k.txt", "docs/.nojekyll.txt"]


def dep5_pattern(form):
    """tagged form -> the text of the pattern (no path used here holds a glob character or a blank)"""
    kind = form[0]
    return {"all": "*", "exact": form[-1], "under": form[-1] + "/*", "prefix": form[-1] + "*", "suffix": "*" + form[-1]}[kind]


def dep5_matches(form, path):
    """what the Debian format says the pattern means: `*` is any run of characters, slashes included; the rest is literal"""
    kind, arg = form[0], form[-1]
    return (kind == "all" or (kind == "exact" and path == arg) or (kind == "under" and path.startswith(arg + "/"))
            or (kind == "prefix" and path.startswith(arg)) or (kind == "suffix" and path.endswith(arg)))


def forms_about(rng, path):
    comps = path.split("/")
    out = [("exact", path)]
    if len(comps) > 1:
        out += [("under", comps[0]), ("under", comps[0])]
        if len(comps) > 2:
            out.append(("under", "/".join(comps[:2])))
    out.append(("prefix", path[:rng.choice([2, 3])]))
    return rng.choice(out)


class Dep5DotStream(ManyFilesStream):
    name = "dep5dot"
    N_QUICK, N_THOROUGH = 90, 900
    FAILURE = "dep5-paragraph-differs"
    rule = ("real .reuse/dep5 projects whose covered paths begin with a dot: 2-4 of 10 pairs (dotted path; the same without its leading "
            "dot(s) / dot directories: .ci/build.cfg ~ ci/build.cfg, .github/workflows/test.yml, .config/x.ini, ..data/y.txt ~ "
            ".data/y.txt ~ data/y.txt, .a/.b/c.txt ~ a/.b/c.txt ~ a/b/c.txt, .x ~ x, .editorconfig, .ci/.hidden/z.sh, ...dots/w.md, "
            ".mailmap.txt) + 4 plain files (a dot directory below src/), 90 % with the look-alikes present; 2-9 Files paragraphs: "
            "per pair one about the dotted path and (80 %) one about a look-alike, in either order — the path literally, `top/*`, "
            "`top/sub/*`, the first 2-3 characters + `*` — plus `*` (first, last, in between or absent), `.*`, `*.cfg` / `*.txt`; each "
            "paragraph its own holder and licence; own information {none x3, copyright, licence, both}; every file looked up through "
            "one Project in random order (70 %) or through the real `reuse lint --json`; oracle: the last paragraph whose pattern "
            "matches the exact path (patterns written from tagged forms the generator knows the meaning of), aggregated with the "
            "file's own information (spec_items); model (op precedence) compared per file; non-trivial = distinct project in which a "
            "dotted path and its look-alike are attributed by different paragraphs")

    def _gen(self, case):
        rng = random.Random(case["seed"])
        pairs = rng.sample(DOT_PAIRS, rng.randint(2, 4))
        with_alikes = rng.random() < 0.9
        paths = []
        paras = []          # (form, holder, licence)

        def para(form):
            k = len(paras)
            paras.append((form, "%d Dep Holder %d" % (2000 + k, k), base.LICS[k % len(base.LICS)]))
        for dotted, alikes in pairs:
            paths.append(dotted)
            if with_alikes:
                paths += alikes
            two = [forms_about(rng, dotted)]
            if rng.random() < 0.8:
                two.append(forms_about(rng, rng.choice(alikes)))
            rng.shuffle(two)
            for f in two:
                para(f)
        paths += rng.sample(PLAIN_FILES, rng.randint(1, 3))
        for extra, p in ((("prefix", "."), 0.25), (("suffix", rng.choice([".cfg", ".txt", ".yml"])), 0.2)):
            if rng.random() < p:
                paras.insert(rng.randrange(len(paras) + 1), (extra, "1990 Extra %s" % extra[0], "Zlib"))
        r = rng.random()
        if r < 0.85:
            pos = 0 if r < 0.55 else len(paras) if r < 0.65 else rng.randrange(len(paras) + 1)
            paras.insert(pos, (("all",), "1999 Everything Else", "Unlicense"))
        paths = sorted(set(paths))
        dep5 = "Format: https://www.debian.org/doc/packaging-manuals/copyright-format/1.0/\n"
        for form, holder, lic in paras:
            dep5 += "\nFiles: %s\nCopyright: %s\nLicense: %s\n" % (dep5_pattern(form), holder, lic)
        files = {".reuse/dep5": dep5}
        looked = []
        for path in paths:
            own = rng.choice("nnnCLB")
            files[path] = OWN_BODY[own]
            hits = [(holder, lic) for form, holder, lic in paras if dep5_matches(form, path)]
            level = ("a", [hits[-1][0]], [hits[-1][1]]) if hits else None
            looked.append((path, [level], OWN_TRUTH[own]))
        order = list(range(len(looked)))
        rng.shuffle(order)
        return files, looked, order, "project" if rng.random() < 0.7 else "lint"

    def impl(self, case):
        files, looked, order, via = self._gen(case)

        def label(path, sp, st):
            return "toml:0" if (sp, st) == (".reuse/dep5", "dep5") else "own" if (sp, st) == (path, "file-header") else None
        with cli.scratch("rv-c04dd-") as root:
            cli.write_tree(root, files)
            res = look_up(root, [looked[k][0] for k in order], via, label)
        return join_answers([p for p, _, _ in looked], res)

    def _why(self, case, path):
        files, looked, order, via = self._gen(case)
        return "; Files paragraphs in order: %s" % [l[len("Files: "):] for l in files[".reuse/dep5"].split("\n") if l.startswith("Files: ")]

    def nontrivial(self, case, impl_out):
        if impl_out.startswith("EXC"):
            return None
        files, looked, order, via = self._gen(case)
        ans = dict(zip([p for p, _, _ in looked], [x.split("=", 1)[1] for x in impl_out.split(" || ")]))
        for dotted, alikes in DOT_PAIRS:
            if dotted in ans and any(a in ans and ans[a] != ans[dotted] for a in alikes):
                return case["seed"]
        return None


# --------------------------------------------------------------------------
# REUSE.toml: tables that repeat a `path` value

TOML_FILES = ["vendor/lib.c", "vendor/sub/deep.c", "vendor/README.txt", "src/main.c", "src/util/x.py", "docs/guide.md", "top.c", "notes.txt"]


def toml_pattern(form):
    kind = form[0]
    return {"all": "**", "under": "%s/**", "ext": "**/*.%s", "top": "*.%s", "exact": "%s"}[kind] % form[1:]


def toml_matches(form, rel):
    """REUSE.toml globbing by the specification: `*` any run of characters but `/`, `**` any run; a pattern covers the whole path"""
    kind, arg = form[0], form[-1]
    if kind == "all":
        return True
    if kind == "under":
        return rel.startswith(arg + "/")
    if kind == "ext":          # **/*.e : any directory prefix (or none), then a name ending in .e
        return rel.rsplit("/", 1)[-1].endswith("." + arg) and len(rel.rsplit("/", 1)[-1]) >= len(arg) + 1
    if kind == "top":
        return "/" not in rel and rel.endswith("." + arg)
    return rel == arg


ROOT_LISTS = [[("all",)], [("under", "vendor")], [("under", "src")], [("under", "vendor"), ("under", "src")], [("under", "vendor"), ("under", "docs")],
              [("ext", "c")], [("ext", "c"), ("under", "docs")], [("exact", "vendor/lib.c")], [("top", "c"), ("top", "txt")], [("under", "vendor/sub")],
              [("exact", "src/main.c"), ("exact", "vendor/lib.c"), ("exact", "top.c")], [("ext", "py"), ("ext", "md"), ("ext", "txt")]]
NESTED_LISTS = [[("all",)], [("under", "sub")], [("under", "util")], [("ext", "c")], [("exact", "lib.c")], [("exact", "main.c")], [("top", "c"), ("top", "txt")],
                [("ext", "c"), ("ext", "py")], [("under", "sub"), ("exact", "lib.c")]]


def gen_tables(rng, pool, n):
    """n path lists in file order, 2-3 of them equal as sets (identical, permuted) or overlapping, others between and after them"""
    lists = [list(rng.choice(pool)) for _ in range(n)]
    r = rng.random()
    if r < 0.85 and n >= 3:
        dup = list(rng.choice([p for p in pool if len(p) > 1] if rng.random() < 0.4 else pool))
        times = 3 if n >= 4 and rng.random() < 0.3 else 2
        pos = sorted(rng.sample(range(n), times))
        if rng.random() < 0.6 and pos[-1] - pos[0] < 2:      # mostly with another table in between
            pos[0], pos[-1] = 0, n - 1 if rng.random() < 0.5 else max(2, n - 2)
            pos = sorted(set(pos))
        for k in pos:
            variant = list(dup)
            v = rng.random()
            if len(variant) > 1 and v < 0.4:
                variant.reverse()
            elif v > 0.85:                                    # overlapping list, not the same set
                variant = variant + [rng.choice(pool)[0]]
            lists[k] = variant
    return lists


class TomlDupStream(ManyFilesStream):
    name = "tomldup"
    N_QUICK, N_THOROUGH = 110, 1200
    FAILURE = "last-matching-table-differs"
    rule = ("real trees of 8 files (vendor/, vendor/sub/, src/, src/util/, docs/, root) with a root REUSE.toml of 3-7 [[annotations]] "
            "tables and (55 %) a nested one in vendor/ or src/ of 2-5 tables; path lists from 12 (root) / 9 (nested) shapes over `**`, "
            "`d/**`, `**/*.e`, `*.e`, literal paths (1-3 patterns per table, as a string or an array); in 85 % of the files 2-3 tables "
            "carry the same path list — identical, the same set in reverse order, or the list plus one more pattern — at positions "
            "with other tables between / after them; each table with its own precedence {closest x3, aggregate x2, override} and "
            "information {none, copyright, licence, both}; every file looked up through one Project in random order (75 %) or "
            "through the real `reuse lint --json`; oracle: per REUSE.toml the last table of the file with a pattern matching the path "
            "relative to it (tagged pattern forms), combined over the levels and the file's own information by spec_items; model "
            "(op precedence) compared per file; non-trivial = distinct project in which some file matches a repeated path list and a "
            "different list standing after its first occurrence")

    def _gen(self, case):
        rng = random.Random(case["seed"])
        nested = rng.choice(["vendor", "src"]) if rng.random() < 0.55 else None
        tag = [0]
        files = {}
        tables = {}          # dir -> [(forms, prec, cpr, lic)]
        for d, pool, n in (("", ROOT_LISTS, rng.randint(3, 7)),) + (((nested, NESTED_LISTS, rng.randint(2, 5)),) if nested else ()):
            tabs = []
            parts = ["version = 1\n"]
            for forms in gen_tables(rng, pool, n):
                tag[0] += 1
                p = rng.choice("cccaao")
                c, l = base.info_for(rng.choice("nCLBB"), tag[0])
                tabs.append((forms, p, c, l))
                pats = [toml_pattern(f) for f in forms]
                parts.append("\n[[annotations]]\npath = %s\nprecedence = \"%s\"\n" % (
                    json.dumps(pats[0]) if len(pats) == 1 and rng.random() < 0.7 else json.dumps(pats), base.PRECS[p]))
                if c:
                    parts.append("SPDX-FileCopyrightText = [%s]\n" % ", ".join('"%s"' % x for x in c))
                if l:
                    parts.append("SPDX-License-Identifier = \"%s\"\n" % l[0])
            tables[d] = tabs
            files[(d + "/" if d else "") + "REUSE.toml"] = "".join(parts)
        looked = []
        for path in TOML_FILES:
            own = rng.choice("nnCLB")
            files[path] = OWN_BODY[own]
            levels = []
            for d in [""] + ([nested] if nested and path.startswith(nested + "/") else []):
                rel = path[len(d) + 1:] if d else path
                hits = [t for t in tables[d] if any(toml_matches(f, rel) for f in t[0])]
                levels.append((hits[-1][1], hits[-1][2], hits[-1][3]) if hits else None)
            looked.append((path, levels, OWN_TRUTH[own]))
        order = list(range(len(looked)))
        rng.shuffle(order)
        self._tables = tables
        return files, looked, order, "project" if rng.random() < 0.75 else "lint"

    def impl(self, case):
        files, looked, order, via = self._gen(case)
        dirs = sorted(os.path.dirname(k) for k in files if k.endswith("REUSE.toml"))      # "" first, then the nested one

        def label(path, sp, st):
            if st == "reuse-toml" and sp and sp.endswith("REUSE.toml") and os.path.dirname(sp) in dirs:
                return "toml:%d" % dirs.index(os.path.dirname(sp))
            return "own" if (sp, st) == (path, "file-header") else None
        with cli.scratch("rv-c04td-") as root:
            cli.write_tree(root, files)
            res = look_up(root, [looked[k][0] for k in order], via, label)
        return join_answers([p for p, _, _ in looked], res)

    def _why(self, case, path):
        files, looked, order, via = self._gen(case)
        return "; tables in file order: %s" % {(d or ".") + "/REUSE.toml": [[toml_pattern(f) for f in t[0]] for t in tabs] for d, tabs in self._tables.items()}

    def nontrivial(self, case, impl_out):
        if impl_out.startswith("EXC"):
            return None
        files, looked, order, via = self._gen(case)
        for d, tabs in self._tables.items():
            keys = [frozenset(t[0]) for t in tabs]
            for i, k in enumerate(keys):
                if k in keys[i + 1:]:
                    for path in TOML_FILES:
                        if d and not path.startswith(d + "/"):
                            continue
                        rel = path[len(d) + 1:] if d else path
                        if any(toml_matches(f, rel) for f in tabs[i][0]) and any(
                                keys[j] != k and any(toml_matches(f, rel) for f in tabs[j][0]) for j in range(i + 1, len(tabs))):
                            return case["seed"]
        return None


STREAMS = [Dep5DotStream(), TomlDupStream()]
