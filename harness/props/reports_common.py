"""Shared by C06 / C01 / C13: project-tree generator with ground truth, the real
`reuse lint` / `lint-file` runs, the abstraction fed to the Lean model and the
independent statement of the report categories (from the property texts).

A *case* is JSON-able:
  {"files": [FILE...], "lic": [NAME...], "extra": [NONCOVERED...], "glob": "none"|"toml"|"dep5"|"tomltree", "git": bool,
   "tomls": [TOML...] (glob = tomltree), "dep5x": [PARA...] (glob = dep5)}
FILE = {"p": relative path, "kind": "text"|"binary"|"fifo", "how": "header"|"dotlicense"|"snippet"|"global"|"header+global"|"bare",
        "style": comment style key, "exprs": [EXPR...], "cop": int, "choke": text of one more SPDX-License-Identifier tag on which the
        expression parser fails with an internal error (optional)}
EXPR = ["K", id] | ["AND", e, e] | ["OR", e, e] | ["WITH", id, id]
NAME = path relative to LICENSES/ (may contain '/', may end in '.license')
"liclinks" (optional): [LINK...] — which of the names in "lic" are reached through symbolic links instead of being regular files
        (the names stay what they are: a link that resolves to a regular file is a licence text named by the *link's* name, a
        link that resolves to a directory is a sub-directory of LICENSES/), and dangling links (no licence text at all):
LINK = {"n": NAME, "k": "file", "to": "alias"|"project"|"hidden"|"outside"|"chain", "target": NAME (alias), "abs": bool}
     | {"n": directory below LICENSES/ ('' = LICENSES itself), "k": "dir", "to": "nested"|"dotreuse"|"hidden"|"outside", "abs": bool}
     | {"n": NAME, "k": "dangling"}
TOML = {"dir": directory ('' = root), "tables": [{"pats": [PAT...], "prec": "c"|"a"|"o", "cop": int, "exprs": [EXPR...]}...]}
PARA = {"pats": [PAT...], "cop": int, "expr": EXPR, "raw": text of the License field when it is not an SPDX expression | None,
        "pos": "before"|"after" the one-file paragraphs}
PAT  = ["all"] | ["here"] | ["ext", ".py"] | ["below", dir] | ["lit", path]   (the generator's own small pattern language, whose
       matches it knows; rendered as `**`, `*`, `*.py`, `dir/**`, path in REUSE.toml and as `*`, -, `*.py`, `dir/*`, path in dep5)
"""
import json
import os
import re
import stat

import cli
import places
from core import enc, enc_list

# ----------------------------------------------------------------------------
# identifiers


def spdx_tables():
    from reuse._licenses import EXCEPTION_MAP, LICENSE_MAP

    lic = {k: bool(v.get("isDeprecatedLicenseId")) for k, v in LICENSE_MAP.items()}
    exc = {k: bool(v.get("isDeprecatedLicenseId")) for k, v in EXCEPTION_MAP.items()}
    return lic, exc


_T = {}


def table():
    """id -> deprecated? for every licence and exception id of the bundled lists."""
    if "all" not in _T:
        lic, exc = spdx_tables()
        allm = dict(lic)
        allm.update(exc)
        _T["all"] = allm
        _T["lic"] = lic
        _T["exc"] = exc
    return _T["all"]


LICREF_RE = re.compile(r"LicenseRef-[a-zA-Z0-9.-]+\Z")  # property text: "a LicenseRef-"


def is_licref(s):
    return LICREF_RE.match(s) is not None


def base(s):
    return s[:-1] if s.endswith("+") else s


def plus(s):
    return s if s.endswith("+") else s + "+"


def id_classes():
    t = table()
    lic, exc = _T["lic"], _T["exc"]
    cur = sorted(k for k, d in lic.items() if not d)
    dep = sorted(k for k, d in lic.items() if d)
    ex = sorted(exc)
    return {
        "current": cur,
        "deprecated": dep,
        "exception": ex,
        "licref": ["LicenseRef-custom", "LicenseRef-a.b", "LicenseRef-Unknown0", "LicenseRef-X-1", "LicenseRef-MIT"],
        "unknown": ["Foo-1.0", "NotALicense", "MIT-ish", "GPL-9.9", "X11-like.v2"],
        "wrongcase": ["mit", "gpl-3.0-or-later", "APACHE-2.0", "Cc0-1.0", "bsd-3-clause"],
        # begins with `LicenseRef-` but is not one: the SPDX idstring is letters, digits, '-' and '.' only, at least one of them
        # (these are the ill-formed shapes the expression parser still takes as one identifier, so they can be *used*)
        "licreflike": list(LICREF_LIKE),
    }


# ill-formed LicenseRef- look-alikes: underscore, non-ASCII letters and digits, colon, empty tail
LICREF_LIKE = ["LicenseRef-Acme_Internal", "LicenseRef-Lizenz-f\u00fcr-X", "LicenseRef-a:b", "LicenseRef-", "LicenseRef-x_", "LicenseRef-_0",
               "LicenseRef-\u65e5\u672c", "LicenseRef-\u0663", "LicenseRef-\u00e9.1", "LicenseRef-a\u00b2"]
# further look-alikes that can only occur as names below LICENSES/ (the expression parser refuses them inside an expression)
LICREF_LIKE_NAMES = ["LicenseRef-a~b", "LicenseRef-a@b", "LicenseRef-a,b", "LicenseRef-(x)", "LicenseRef-a=b", "LicenseRef-caf\u00e9!"]


# ----------------------------------------------------------------------------
# expressions (generator's own tree; keys by the generator's own traversal)


def expr_keys(e):
    if e[0] == "K":
        return [e[1]]
    if e[0] == "WITH":
        return [e[1], e[2]]
    return expr_keys(e[1]) + expr_keys(e[2])


def expr_text(e, top=True):
    if e[0] == "K":
        return e[1]
    if e[0] == "WITH":
        return "%s WITH %s" % (e[1], e[2])
    s = "%s %s %s" % (expr_text(e[1], False), e[0], expr_text(e[2], False))
    return s if top else "(" + s + ")"


# ----------------------------------------------------------------------------
# tree writing

STYLES = {
    "py": ("", "# ", ""),
    "c": ("/*\n", " * ", " */\n"),
    "cpp": ("", "// ", ""),
    "html": ("<!--\n", "  ", "-->\n"),
    "txt": ("", "", ""),
    "tex": ("", "% ", ""),
    "sql": ("", "-- ", ""),
}


def header_text(f):
    a, pre, z = STYLES[f.get("style", "py")]
    lines = []
    for i in range(f["cop"]):
        lines.append("%sSPDX-FileCopyrightText: %d Holder %d\n" % (pre, 2001 + i, i))
    for e in f["exprs"]:
        lines.append("%sSPDX-License-Identifier: %s\n" % (pre, expr_text(e)))
    if f.get("choke"):
        lines.append("%sSPDX-License-Identifier: %s\n" % (pre, f["choke"]))
    return a + "".join(lines) + z


def toml_str(s):
    return json.dumps(s, ensure_ascii=False)


def glob_escape(p):
    return p.replace("\\", "\\\\").replace("*", "\\*")


def global_parts(f):
    """What the global licensing file says about f (for how=global / header+global)."""
    if f["how"] == "global":
        return f["cop"], f["exprs"]
    if f["how"] == "header+global":
        return f.get("gcop", 0), f.get("gexprs", [])
    return 0, []


# ----------------------------------------------------------------------------
# global licensing beyond "one table per file": REUSE.toml hierarchies and dep5 paragraphs with wildcards.
# The generator speaks a small pattern language of its own (PAT, see the module docstring) so that it knows, without
# consulting any glob implementation, which files a table or paragraph matches.


def ancestors(p):
    """the directories above p, outermost first: 'a/b/c.txt' -> ['', 'a', 'a/b']"""
    parts = p.split("/")[:-1]
    return ["/".join(parts[:k]) for k in range(len(parts) + 1)]


def dep5_escape(p):
    return p.replace("\\", "\\\\").replace("*", "\\*").replace("?", "\\?")


def pat_text(pat, dep5=False):
    k = pat[0]
    if k == "all":
        return "*" if dep5 else "**"
    if k == "here":
        assert not dep5
        return "*"
    if k == "ext":
        return "*" + pat[1]
    if k == "below":
        return pat[1] + ("/*" if dep5 else "/**")
    assert k == "lit"
    return dep5_escape(pat[1]) if dep5 else glob_escape(pat[1])


def pat_match(pat, r, dep5=False):
    """does PAT match the path r (relative to the REUSE.toml's directory / to the project root for dep5)?
    REUSE.toml: `*` stops at '/', `**` does not; dep5: `*` matches any characters, '/' included."""
    k = pat[0]
    if k == "all":
        return True
    if k == "here":
        return "/" not in r
    if k == "ext":
        return r.endswith(pat[1]) and len(r) > len(pat[1]) and (dep5 or "/" not in r)
    if k == "below":
        return r.startswith(pat[1] + "/")
    return r == pat[1]


def toml_levels(case, p):
    """per REUSE.toml on the way from the root to p's directory, outermost first: (index into case['tomls'], index of the
    last table that matches p, or None when none of its tables does)"""
    out = []
    anc = ancestors(p)
    for ti, t in sorted(enumerate(case.get("tomls", [])), key=lambda x: (len(x[1]["dir"].split("/")) if x[1]["dir"] else 0)):
        if t["dir"] not in anc:
            continue
        r = p[len(t["dir"]) + 1:] if t["dir"] else p
        hit = None
        for k, tab in enumerate(t["tables"]):
            if any(pat_match(pat, r) for pat in tab["pats"]):
                hit = k
        out.append((ti, hit))
    return out


def dep5_paras(case):
    """the Files paragraphs of .reuse/dep5 in the order they are written: wildcard paragraphs placed before, one paragraph
    per how=global file, wildcard paragraphs placed after (the last paragraph that matches a file applies)"""
    xs = case.get("dep5x", [])
    out = [x for x in xs if x.get("pos", "before") == "before"]
    for f in case["files"]:
        if f["kind"] != "fifo" and f["how"] == "global":
            assert f["cop"] and len(f["exprs"]) == 1 and " " not in f["p"]
            out.append({"pats": [["lit", f["p"]]], "cop": f["cop"], "expr": f["exprs"][0], "raw": None})
    out += [x for x in xs if x.get("pos", "before") == "after"]
    return out


def dep5_para_of(case, p):
    hit = None
    for para in dep5_paras(case):
        if any(pat_match(pat, p, dep5=True) for pat in para["pats"]):
            hit = para
    return hit


def entries(case):
    """the covered files of the tree: the generated ones plus the .gitignore of a Git repository (which carries a full header)"""
    out = list(case["files"])
    if case.get("git"):
        out.append(dict(p=".gitignore", kind="text", how="header", style="py", exprs=[["K", case.get("gitignore_lic", "MIT")]], cop=1))
    return out


OWN_HOWS = ("header", "dotlicense", "snippet", "header+global")


def attribution(case, f, alt=False):
    """(could a report be produced?, has a copyright notice?, [EXPR...]) for the covered file f — what the REUSE
    specification attributes to it given everything the generator wrote: the file's own header / .license sibling, the
    REUSE.toml tables or dep5 paragraph that match it and their precedence.

    A file whose own tags hold a text that is no SPDX expression — also one of those on which the library's parser used
    to fail internally (`()`, `( AND MIT`: key "choke") — is a file with an unparseable expression: nothing is taken from it
    (C02: "a file holding an unparseable licence expression contributes no information at all"; the tool's behaviour since
    fixes/expression-parser-internal-failures.diff).  alt=True is the reading the tool had before that repair, still accepted
    by the oracle: the file is named as unreadable, clause (d).  A dep5 paragraph whose licence is no expression makes the
    report of every file it matches fail: those files are unreadable under both readings."""
    if f["kind"] == "fifo":
        return False, False, []
    own = f["how"] in OWN_HOWS
    cop, exprs = (f["cop"], list(f["exprs"])) if own else (0, [])
    choke = own and bool(f.get("choke"))
    if choke and not alt:
        cop, exprs, choke = 0, [], False
    glob = case["glob"]
    if glob == "tomltree":
        import c04
        truth = []
        for ti, k in toml_levels(case, f["p"]):
            if k is None:
                truth.append(None)
            else:
                tab = case["tomls"][ti]["tables"][k]
                truth.append((tab["prec"], ["t%d.%d.%d" % (ti, k, i) for i in range(tab["cop"])], [json.dumps(e) for e in tab["exprs"]]))
        vis = []
        for lv in truth:
            if lv is not None:
                vis.append(lv)
                if lv[0] == "o":
                    break
        overridden = any(lv[0] == "o" for lv in vis)   # then the file itself is not consulted at all
        if choke and not overridden:
            return False, False, []
        items = c04.spec_items(truth, (["own.%d" % i for i in range(cop)], [json.dumps(e) for e in exprs]))
        return True, any(k == "C" for k, _, _ in items), [json.loads(v) for k, _, v in sorted(items) if k == "L"]
    if choke:
        return False, False, []
    if glob == "dep5":
        para = dep5_para_of(case, f["p"])
        if para is not None:
            if para.get("raw") is not None:
                return False, False, []
            cop, exprs = cop + para["cop"], exprs + [para["expr"]]
        return True, cop > 0, exprs
    gc, ge = global_parts(f)
    return True, cop + gc > 0, exprs + list(ge)


def has_choke(case):
    return any(f.get("choke") for f in case["files"])


def toml_file_text(t):
    parts = ["version = 1\n"]
    for tab in t["tables"]:
        pats = [toml_str(pat_text(pat)) for pat in tab["pats"]]
        item = ["[[annotations]]", "path = %s" % (pats[0] if len(pats) == 1 else "[%s]" % ", ".join(pats))]
        if tab["prec"] != "c" or tab.get("explicit"):
            item.append('precedence = "%s"' % {"c": "closest", "a": "aggregate", "o": "override"}[tab["prec"]])
        if tab["cop"] == 1 and tab.get("explicit"):
            item.append('SPDX-FileCopyrightText = "2011 Table Holder 0"')
        elif tab["cop"]:
            item.append("SPDX-FileCopyrightText = [%s]" % ", ".join(toml_str("%d Table Holder %d" % (2011 + i, i)) for i in range(tab["cop"])))
        if len(tab["exprs"]) == 1 and not tab.get("explicit"):
            item.append("SPDX-License-Identifier = %s" % toml_str(expr_text(tab["exprs"][0])))
        elif tab["exprs"]:
            item.append("SPDX-License-Identifier = [%s]" % ", ".join(toml_str(expr_text(e)) for e in tab["exprs"]))
        parts.append("\n" + "\n".join(item) + "\n")
    return "".join(parts)


def _rel_link(root, link_path, target_path, absolute):
    """the text of a symbolic link at root/link_path that points at root/target_path (target_path may begin with '../')"""
    full = os.path.normpath(os.path.join(root, target_path))
    if absolute:
        return full
    return os.path.relpath(full, os.path.dirname(os.path.join(root, link_path)))


def place_licences(root, case, files, outside=None):
    """Put the licence texts of case["lic"] into `files` (project-relative path -> content; a path beginning with '../' lies
    next to the project) — regular files below LICENSES/, or, for the names that case["liclinks"] speaks about, the target of
    a symbolic link.  Returns the links to make: [(project-relative path, link text | None = make this directory)]."""
    specs = case.get("liclinks", [])
    flinks = {l["n"]: l for l in specs if l["k"] == "file"}
    dlinks = sorted((l for l in specs if l["k"] == "dir"), key=lambda l: -len(l["n"]))
    out_base = os.path.relpath(outside, root) if outside else ".reuse/rv-outside"
    links = []
    dir_target = {}
    # one link to a directory on the way to an entry at most (the generator makes no link below a linked directory)
    assert not any(a["n"] != b["n"] and (a["n"] == "" or b["n"].startswith(a["n"] + "/")) for a in dlinks for b in dlinks), dlinks
    for k, l in enumerate(dlinks):
        to = l["to"]
        if to == "nested":
            t = ["vendor/LICENSES", "third_party/x/LICENSES", "src/ext/LICENSES"][k % 3] + ("/d%d" % k if k >= 3 else "")
        elif to == "dotreuse":
            t = ".reuse/texts-%d" % k
        elif to == "hidden" and l["n"]:
            t = "LICENSES/.pool/d%d" % k
        else:
            t = "%s/dir-%d" % (out_base, k)
        dir_target[l["n"]] = t
        links.append((t, None))
        lp = "LICENSES/" + l["n"] if l["n"] else "LICENSES"
        links.append((lp, _rel_link(root, lp, t, l.get("abs"))))

    def through_dirs(name):
        """where the entry LICENSES/name really lies, given the links to directories on its way"""
        for l in dlinks:
            d = l["n"]
            if d == "" or name.startswith(d + "/"):
                return dir_target[d] + "/" + (name[len(d) + 1:] if d else name)
        return "LICENSES/" + name

    for k, name in enumerate(case["lic"]):
        text = "licence text of %s\n" % name
        where = through_dirs(name)
        l = flinks.get(name)
        if l is None:
            files[where] = text
            continue
        to = l["to"]
        if to == "alias":
            target = through_dirs(l["target"])       # another licence text of the project (it is written in its own turn)
        elif to == "project":
            target = ["COPYING-%d", "legal/LICENSE-%d.txt", "LICENSE.%d.md"][k % 3] % k
        elif to == "hidden":
            target = through_dirs(".store/text-%d" % k)
        elif to == "chain":
            hop, target = through_dirs(".store/hop-%d" % k), "docs/COPYING-%d.txt" % k
            links.append((hop, _rel_link(root, hop, target, False)))
            files[target] = text
            target = hop
        else:
            target = "%s/text-%d" % (out_base, k)
        if to not in ("alias", "chain"):
            files[target] = text
        links.append((where, _rel_link(root, where, target, l.get("abs"))))
    for l in specs:
        if l["k"] == "dangling":
            links.append((through_dirs(l["n"]), "no/such/file-%d" % len(links)))
    return links


def build_tree(root, case, outside=None):
    """outside: a directory next to the project for the targets of links that leave it (None: such targets stay in .reuse/)"""
    files = {}
    fifos = []
    toml_items = []
    for f in case["files"]:
        p = f["p"]
        if f["kind"] == "fifo":
            fifos.append(p)
            continue
        body = b"\x00\x01\x02binary\xff\xfe" if f["kind"] == "binary" else "content of a file\n"
        how = f["how"]
        if how == "snippet":
            # the tags sit in an SPDX snippet beyond the 4 KiB window; the marker starts f["snip"] bytes before a multiple of
            # 4096 (so it may straddle a block boundary of any chunked reader)
            assert f["kind"] == "text"
            k, j = f.get("snip", [1, 0])
            lead = 4096 * k - j
            filler = ("filler line\n" * (lead // 12 + 1))[: lead - 1] + "\n"
            body = filler + "SPDX-SnippetBegin\n" + header_text(f) + "SPDX-SnippetEnd\n" + body
        if how in ("header", "header+global"):
            assert f["kind"] == "text"
            body = header_text(f) + "\n" + body
        elif how == "dotlicense":
            files[p + ".license"] = header_text({**f, "style": "txt"})
        gc, ge = global_parts(f)
        if how in ("global", "header+global"):
            if case["glob"] == "toml":
                item = ["[[annotations]]", "path = %s" % toml_str(glob_escape(p))]
                if how == "header+global":
                    item.append('precedence = "aggregate"')
                if f.get("emptycop"):
                    # an empty string is not a copyright notice (clause (a)): the file still lacks one
                    item.append('SPDX-FileCopyrightText = %s' % f["emptycop"])
                elif gc:
                    item.append("SPDX-FileCopyrightText = [%s]" % ", ".join(
                        toml_str("%d Global Holder %d" % (1990 + i, i)) for i in range(gc)))
                if ge:
                    item.append("SPDX-License-Identifier = [%s]" % ", ".join(toml_str(expr_text(e)) for e in ge))
                toml_items.append("\n".join(item) + "\n")
            else:
                assert case["glob"] == "dep5" and gc and len(ge) == 1 and " " not in p
        files[p] = body
    if case["glob"] == "toml":
        files["REUSE.toml"] = "version = 1\n\n" + "\n".join(toml_items)
    elif case["glob"] == "tomltree":
        for t in case["tomls"]:
            files[(t["dir"] + "/" if t["dir"] else "") + "REUSE.toml"] = toml_file_text(t)
    elif case["glob"] == "dep5":
        dep5_items = []
        for para in dep5_paras(case):
            dep5_items.append("Files: %s\nCopyright: %s\nLicense: %s\n" % (
                " ".join(pat_text(pat, dep5=True) for pat in para["pats"]),
                "\n           ".join("%d Global Holder %d" % (1990 + i, i) for i in range(para["cop"])),
                para["raw"] if para.get("raw") is not None else expr_text(para["expr"])))
        files[".reuse/dep5"] = (
            "Format: https://www.debian.org/doc/packaging-manuals/copyright-format/1.0/\nUpstream-Name: demo\n"
            "Upstream-Contact: Jane <jane@example.com>\nSource: https://example.com/demo\n\n" + "\n".join(dep5_items))
    links = []
    links += place_licences(root, case, files, outside)
    ignored = []
    for x in case.get("extra", []):
        k = x["k"]
        if k == "plain":  # LICENSE, COPYING.md, foo.spdx, x.license without owner ...: never covered
            files[x["p"]] = "no tags here\n"
        elif k == "empty":
            files[x["p"]] = ""
        elif k == "symlink":
            links.append((x["p"], x["to"]))
        elif k == "gitignored":
            files[x["p"]] = ("SPDX-License-Identifier: LicenseRef-ignored-material\n" if x.get("tags") else "no tags here either\n")
            ignored += x["pats"] if "pats" in x else ["/" + x["p"]]
        elif k == "dir":
            files[x["p"] + "/.keep"] = ""
    li = case.get("licignore")
    if li:
        # ignore rules that match licence texts below LICENSES/ (which stay untracked): {"pats": [...], "where": "root" | "LICENSES"};
        # a .gitignore inside LICENSES/ is a hidden name, which the LICENSES/ scan does not list
        if li["where"] == "root":
            ignored += li["pats"]
        else:
            files["LICENSES/.gitignore"] = "".join("%s\n" % p for p in li["pats"])
    if case.get("git"):
        files[".gitignore"] = "# SPDX-FileCopyrightText: 2001 Holder 0\n# SPDX-License-Identifier: %s\n%s" % (
            case.get("gitignore_lic", "MIT"), "".join("%s\n" % p for p in ignored))
    cli.write_tree(root, files)
    for p in fifos:
        os.makedirs(os.path.dirname(os.path.join(root, p)) or root, exist_ok=True)
        os.mkfifo(os.path.join(root, p))
    for p, to in links:
        os.makedirs(os.path.dirname(os.path.join(root, p)) or root, exist_ok=True)
        if to is None:      # a directory that has to exist (the target of a link to a directory)
            os.makedirs(os.path.join(root, p), exist_ok=True)
            continue
        os.symlink(to, os.path.join(root, p))
    if case.get("git"):
        import subprocess
        genv = {**os.environ, "GIT_CONFIG_GLOBAL": "/dev/null", "GIT_CONFIG_SYSTEM": "/dev/null"}
        subprocess.run(["git", "init", "-q", root], check=True, capture_output=True, env=genv)
        if case.get("gitadd"):
            subprocess.run(["git", "-C", root, "add", "-A"], check=True, capture_output=True, env=genv)


# ----------------------------------------------------------------------------
# ground truth -> abstract project (what the model and the oracle are fed)


def abstract(case, alt=False):
    """[(path, readable, has_copyright, [keys of expr 1, keys of expr 2, ...])] for the covered files,
    straight from the generator's records (see `attribution`)."""
    out = []
    for f in entries(case):
        rd, cop, exprs = attribution(case, f, alt)
        out.append((f["p"], rd, cop, [expr_keys(e) for e in exprs]))
    return out


def lic_paths(case):
    return ["LICENSES/" + n for n in case["lic"]]


def enc_exprs(exprs):
    return "~" if not exprs else "|".join(enc_list(ks) for ks in exprs)


def model_fields(case):
    """the tab-separated tail shared by the report / lint / subset ops"""
    out = [enc_list(lic_paths(case))]
    for p, rd, cop, exprs in abstract(case):
        out += [enc(p), ("1" if rd else "0") + ("1" if cop else "0"), enc_exprs(exprs)]
    return out


# ----------------------------------------------------------------------------
# independent statement of the categories (C06 text, C01 clauses), from names and ground truth only


def carried(name):
    """(identifier, has_extension, valid) carried by a LICENSES/ entry called *name* (last path component),
    read off the property texts: NAME = ID.EXT with ID an SPDX identifier or a LicenseRef-; a whole name that
    is an SPDX identifier lacks its extension; anything else carries no valid identifier (the tool then names
    the file by its stem)."""
    t = table()
    if name in t:
        return name, False, True
    i = name.rfind(".")
    if 0 < i < len(name) - 1:
        stem = name[:i]
        if stem in t or is_licref(stem):
            return stem, True, True
        return stem, True, False
    if is_licref(name):
        return name, False, True
    return name, False, False


def expected(case, alt=False):
    """The report the property texts demand for this tree."""
    return expected_of(abstract(case, alt), case["lic"])


def expected_of(files, lic):
    """The report the property texts demand for the covered files `files` (as `abstract` gives them) and the LICENSES/ names `lic`."""
    t = table()
    used = {}  # id -> set of files
    for p, rd, cop, exprs in files:
        if rd:
            for ks in exprs:
                for k in ks:
                    used.setdefault(k, set()).add(p)
    provided = {}  # id -> path
    noext = {}
    invalid_names = {}
    for n in lic:
        last = n.rsplit("/", 1)[-1]
        if last.endswith(".license") and last != ".license":
            continue
        ident, has_ext, valid = carried(last)
        provided[ident] = "LICENSES/" + n
        if valid and not has_ext:
            noext[ident] = "LICENSES/" + n
        if not valid:
            invalid_names[ident] = "LICENSES/" + n

    def valid_id(i):
        return i in t or is_licref(i)

    missing = {(i, p) for i, ps in used.items() if i not in provided and base(i) not in provided for p in ps}
    unused = {i for i in provided if i not in used and plus(i) not in used}
    bad = {(i, p) for i, ps in used.items() if not valid_id(i) and not valid_id(base(i)) for p in ps}
    bad |= {(i, p) for i, p in provided.items() if not valid_id(i)}
    deprecated = {i for i in provided if t.get(i, False)}
    nocop = {p for p, rd, cop, exprs in files if rd and not cop}
    nolic = {p for p, rd, cop, exprs in files if rd and not any(exprs)}
    readerr = {p for p, rd, cop, exprs in files if not rd}
    exp = {
        "missing": sorted(map(list, missing)), "unused": sorted(unused), "bad": sorted(map(list, bad)),
        "deprecated": sorted(deprecated), "noext": sorted(noext), "nocop": sorted(nocop), "nolic": sorted(nolic),
        "readerr": sorted(readerr), "used": sorted(used),
    }
    exp["compliant"] = not any(exp[k] for k in ("missing", "unused", "bad", "deprecated", "noext", "nocop", "nolic", "readerr"))
    exp["exit"] = 0 if exp["compliant"] else 1
    return exp


def clauses(case, alt=False):
    """C01 (a)-(d) verbatim over the ground truth; returns the list of violated clause letters."""
    return clauses_of(abstract(case, alt), case["lic"])


def clauses_of(files, lic):
    t = table()
    viol = set()
    used = set()
    for p, rd, cop, exprs in files:
        if not rd:
            viol.add("d")
            continue
        if not cop or not any(exprs):
            viol.add("a")
        for ks in exprs:
            used.update(ks)
    provided = set()
    for n in lic:
        last = n.rsplit("/", 1)[-1]
        if last.endswith(".license") and last != ".license":
            continue
        ident, has_ext, valid = carried(last)
        provided.add(ident)
        if not valid or not has_ext or t.get(ident, False):
            viol.add("c")
        if ident not in used and plus(ident) not in used:
            viol.add("c")
    for u in used:
        ok = (u in t or is_licref(u) or base(u) in t or is_licref(base(u)))
        if not ok or not (u in provided or base(u) in provided):
            viol.add("b")
    return sorted(viol)


# ----------------------------------------------------------------------------
# the real tool


def rel(root, p):
    p = str(p)
    rr = os.path.realpath(root)
    for r in (root, rr):
        if p == r:
            return "."
        if p.startswith(r + os.sep):
            return p[len(r) + 1:]
    return p


def canon_json(root, code, rep):
    nc = rep["non_compliant"]
    out = {
        "exit": code,
        "missing": sorted([i, rel(root, p)] for i, ps in nc["missing_licenses"].items() for p in ps),
        "unused": sorted(nc["unused_licenses"]),
        "bad": sorted([i, rel(root, p)] for i, ps in nc["bad_licenses"].items() for p in ps),
        "deprecated": sorted(nc["deprecated_licenses"]),
        "noext": sorted(nc["licenses_without_extension"]),
        "nocop": sorted(rel(root, p) for p in nc["missing_copyright_info"]),
        "nolic": sorted(rel(root, p) for p in nc["missing_licensing_info"]),
        "readerr": sorted(rel(root, p) for p in nc["read_errors"]),
        "used": sorted(rep["summary"]["used_licenses"]),
        "compliant": rep["summary"]["compliant"],
        # the files for which a per-file report exists (not part of what the model is compared on, see ReportStream.agree)
        "files": sorted(rel(root, f["path"]) for f in rep["files"]),
    }
    return out


MP_LIMIT = 150      # seconds; a pool run of these small projects takes well under a second


def _run_cli_plain(args, root):
    code, out, exc = cli.run_cli(args, root)
    return [code, out, None if exc is None else "%s:%s" % (type(exc).__name__, str(exc)[:100])]


def run_lint_json(case, mp=False):
    with places.project_dir(case, "rv-rep-") as root:
        # links that leave the project point into a directory next to it (there is one when the project has a name of its own)
        build_tree(root, case, outside=os.path.join(os.path.dirname(root), "rv-outside") if case.get("root") else None)
        args = ["lint", "--json"] if mp else ["--no-multiprocessing", "lint", "--json"]
        if mp:
            # through the worker pool: bounded, so that a pool that never hands its results back is an observation, not a stalled check
            res = cli.run_bounded(lambda: json.dumps(_run_cli_plain(args, root)), MP_LIMIT)
            if res.startswith("timeout:"):
                return "EXC:NoResult:`reuse lint --json` through the worker pool gave no result after %d s (process group killed)" % MP_LIMIT
            if res.startswith("EXC"):
                return res
            code, out, exc = json.loads(res)
            if exc is not None:
                return "EXC:%s" % exc
        else:
            code, out, exc = cli.run_cli(args, root)
        if exc is not None:
            return "EXC:%s:%s" % (type(exc).__name__, str(exc)[:100])
        try:
            rep, _ = json.JSONDecoder().raw_decode(out[out.index("{"):])
        except Exception as e:
            return "EXC:output:%s" % (out[:100],)
        return json.dumps(canon_json(root, code, rep), sort_keys=True)


KEYS = ("missing", "unused", "bad", "deprecated", "noext", "nocop", "nolic", "readerr")


def model_report_out(out):
    """driver answer of the `report` op -> the same canonical JSON string"""
    if out.startswith("error"):
        return "EXC:RuntimeError:Multiple licenses resolve to {identifier}"
    from core import dec_list
    d = {}
    for part in out.split("|"):
        k, v = part.split("=", 1)
        d[k] = v
    res = {"exit": int(d["exit"]), "compliant": d["compliant"] == "1"}
    for k in ("missing", "bad"):
        l = dec_list(d[k])
        res[k] = sorted([l[i], l[i + 1]] for i in range(0, len(l), 2))
    for k in ("unused", "deprecated", "noext", "nocop", "nolic", "readerr", "used"):
        res[k] = sorted(set(dec_list(d[k])))
    for k in ("missing", "bad"):
        res[k] = sorted([list(x) for x in {tuple(y) for y in res[k]}])
    return json.dumps(res, sort_keys=True)


# ----------------------------------------------------------------------------
# generators

K = lambda i: ["K", i]  # noqa: E731

USES = ["alone", "plus", "and", "or", "with", "paren", "two-tags", "dotlicense", "toml", "dep5", "unused"]
PROVISIONS = ["absent", "ID.txt", "ID.md", "ID", "sub/ID.txt", "ID+.txt", "ID.txt+companion",
              # a *different* name that SPDX naming relates to the identifier (for the GNU family both are list entries, see gnu_cases)
              "ID-or-later.txt", "ID-only.txt"]


def gnu_stems():
    """the identifiers X of the bundled list that have the siblings X-only and X-or-later (GPL, LGPL, AGPL, GFDL families)"""
    t = table()
    return sorted(x for x in t if x + "-or-later" in t and x + "-only" in t)


def gnu_forms(stem):
    """the spellings SPDX naming relates to one another; as identifiers they are pairwise different (only the trailing '+' is tolerated)"""
    return [stem, stem + "+", stem + "-only", stem + "-or-later"]


def mkfile(p, exprs, cop=1, how="header", kind="text", style="py", **kw):
    return dict(p=p, kind=kind, how=how, style=style, exprs=exprs, cop=cop, **kw)


def product_case(cls, x, use, prov, px=None):
    """one cell of C06's quantifier: identifier x of class cls, used in form `use`, provided in form `prov`;
    the rest of the project (a filler file and its licence) is compliant.  With px the LICENSES/ entry is named after px
    instead of x (an identifier related to x by naming only)."""
    filler = "ISC" if x not in ("ISC", "ISC+") else "0BSD"
    files = [mkfile("filler.py", [K(filler)])]
    lic = [filler + ".txt"]
    glob = "none"
    exc = "Classpath-exception-2.0" if x != "Classpath-exception-2.0" else "LLVM-exception"
    if use == "alone":
        files.append(mkfile("subject.c", [K(x)], style="c"))
    elif use == "plus":
        files.append(mkfile("subject.c", [K(plus(x))], style="cpp"))
    elif use == "and":
        files.append(mkfile("subject.py", [["AND", K(filler), K(x)]]))
    elif use == "or":
        files.append(mkfile("subject.html", [["OR", K(x), K(filler)]], style="html"))
    elif use == "with":
        if cls == "exception":
            files.append(mkfile("subject.py", [["WITH", filler, x]]))
        else:
            files.append(mkfile("subject.py", [["WITH", x, exc]]))
            lic.append(exc + ".txt")
    elif use == "paren":
        files.append(mkfile("subject.tex", [["AND", ["OR", K(filler), ["AND", K(x), K(filler)]], K(filler)]], style="tex"))
    elif use == "two-tags":
        files.append(mkfile("subject.sql", [K(filler), K(x)], style="sql"))
    elif use == "dotlicense":
        files.append(mkfile("subject.png", [K(x)], how="dotlicense", kind="binary"))
    elif use == "toml":
        glob = "toml"
        files.append(mkfile("dir/subject.txt", [K(x)], how="global", style="txt"))
    elif use == "dep5":
        glob = "dep5"
        files.append(mkfile("dir/subject.txt", [K(x)], how="global", style="txt"))
    elif use == "unused":
        pass
    y = px if px is not None else x
    if prov == "absent":
        pass
    elif prov == "ID.txt":
        lic.append(y + ".txt")
    elif prov == "ID.md":
        lic.append(y + ".md")
    elif prov == "ID":
        lic.append(y)
    elif prov == "sub/ID.txt":
        lic.append("sub/dir/" + y + ".txt")
    elif prov == "ID+.txt":
        lic.append(plus(y) + ".txt")
    elif prov == "ID.txt+companion":
        lic += [y + ".txt", y + ".txt.license"]
    elif prov == "ID-or-later.txt":
        lic.append(base(y) + "-or-later.txt")
    elif prov == "ID-only.txt":
        lic.append(base(y) + "-only.txt")
    return {"files": files, "lic": lic, "glob": glob, "cell": [cls, x, use, prov] + ([px] if px is not None else [])}


def gnu_cases(tier, rng):
    """used spelling x provided spelling over the GNU families: X, X+, X-only, X-or-later are four identifiers of the list; a use
    of one is satisfied by a LICENSES/ entry of the same identifier (or, for a use with '+', of the identifier without it) and by
    nothing else"""
    combos = []
    for s in gnu_stems():
        for u in (s, s + "-only", s + "-or-later"):
            for up in (False, True):
                for p in gnu_forms(s):
                    combos.append((u, up, p))
    rng.shuffle(combos)
    if tier != "thorough":
        combos = combos[:90]
    plain_uses = [u for u in USES if u not in ("plus", "unused")]
    for u, up, p in combos:
        if up:
            # a use with '+': either the plain tag `X+` or `X+` inside a compound expression
            if rng.random() < 0.5:
                yield product_case("gnu", u, "plus", rng.choice(["ID.txt", "ID.txt", "ID.md", "ID", "sub/ID.txt"]), px=p)
            else:
                c = product_case("gnu", u, rng.choice(["and", "or", "paren", "two-tags", "dotlicense", "toml", "dep5"]),
                                 rng.choice(["ID.txt", "ID.txt", "ID.md", "sub/ID.txt"]), px=p)
                _plus_subject(c, u)
                yield c
        else:
            yield product_case("gnu", u, rng.choice(plain_uses), rng.choice(["ID.txt", "ID.txt", "ID.md", "ID", "sub/ID.txt"]), px=p)


def _plus_subject(case, x):
    """rewrite the use of x in the subject file of a product case into x+"""
    def rw(e):
        if e[0] == "K":
            return ["K", plus(x)] if e[1] == x else e
        if e[0] == "WITH":
            return e
        return [e[0], rw(e[1]), rw(e[2])]
    for f in case["files"]:
        if f["p"] != "filler.py":
            f["exprs"] = [rw(e) for e in f["exprs"]]
    case["cell"][2] += "+plus"


def product_cases(tier, rng):
    cl = id_classes()
    pools = {}
    for c, ids in cl.items():
        ids = list(ids)
        rng.shuffle(ids)
        pools[c] = ids
    cursor = {c: 0 for c in cl}

    def nxt(c):
        i = cursor[c]
        cursor[c] = i + 1
        return pools[c][i % len(pools[c])]

    rounds = 1
    for _ in range(rounds):
        for c in cl:
            for u in USES:
                for p in PROVISIONS:
                    yield product_case(c, nxt(c), u, p)
    if tier == "thorough":
        # every identifier of the bundled lists at least once more, in a random cell
        for c in ("current", "deprecated", "exception"):
            for x in sorted(cl[c]):
                yield product_case(c, x, rng.choice(USES), rng.choice(PROVISIONS))
                yield product_case(c, x, "unused", "ID")
    # the identifiers whose stem is itself an identifier (known finding) and the `LicenseRef-…Unknown…` family
    t = table()
    for x in sorted(t):
        i = x.rfind(".")
        if 0 < i < len(x) - 1 and x[:i] in t:
            yield product_case("current", x, "alone", "ID")
            yield product_case("current", x, "alone", "ID.txt")
    for u in ("alone", "unused"):
        for p in ("ID.txt", "ID", "absent"):
            yield product_case("licref", "LicenseRef-Unknown0", u, p)
            yield product_case("licref", "LicenseRef-SomeUnknownThing", u, p)
    yield from gnu_cases(tier, rng)
    # LicenseRef- look-alikes that can only be names below LICENSES/
    for n in LICREF_LIKE_NAMES:
        yield product_case("licreflike", n, "unused", rng.choice(["ID.txt", "ID", "sub/ID.txt", "ID.md"]))
    # the entry reached through a symbolic link (to a file, to a directory), or only a dangling link
    yield from link_product_cases(tier, rng)


NAMES = ["a.py", "src/b c.py", "src/ü.c", "doc/read me.html", "data/x:y.txt", "src/deep/er/m.tex", "q.sql", "img/p.png",
         "src/n.cpp", "weird/license-like.py", "e/é è.txt", "z"]
STYLE_OF = {".py": "py", ".c": "c", ".html": "html", ".txt": "txt", ".tex": "tex", ".sql": "sql", ".cpp": "cpp", ".png": "py", "": "txt"}


def style_for(p):
    return STYLE_OF.get(os.path.splitext(p)[1], "txt")


def rand_expr(rng, ids, depth=0):
    r = rng.random()
    if depth >= 2 or r < 0.5:
        x = rng.choice(ids)
        return K(plus(x) if rng.random() < 0.12 else x)
    if r < 0.7:
        return ["AND", rand_expr(rng, ids, depth + 1), rand_expr(rng, ids, depth + 1)]
    if r < 0.9:
        return ["OR", rand_expr(rng, ids, depth + 1), rand_expr(rng, ids, depth + 1)]
    return ["WITH", rng.choice(ids), rng.choice(["Classpath-exception-2.0", "LLVM-exception", "GCC-exception-3.1"])]


def used_ids(case):
    s = set()
    for p, rd, cop, exprs in abstract(case):
        if rd:
            for ks in exprs:
                s.update(ks)
    return s


# more files in nested directories, for the REUSE.toml hierarchies
TREE_NAMES = ["src/deep/k.py", "src/deep/er/w.txt", "src/lib/u.c", "doc/api/i.html", "src/deep/x y.sql"]


def rand_pat(rng, below):
    """a PAT for a REUSE.toml table, drawn from the shapes that match at least one of the relative paths `below` (mostly)"""
    r = rng.choice(below)
    kinds = ["all", "all", "lit", "lit", "ext", "here"] + (["below", "below"] if "/" in r else [])
    k = rng.choice(kinds)
    if k == "ext":
        e = os.path.splitext(r)[1]
        return ["ext", e] if e else ["here"]
    if k == "below":
        return ["below", r.split("/")[0]]
    if k == "lit":
        return ["lit", r]
    return [k]


def rand_table(rng, pool, below):
    shape = rng.choice("CCCLLLBBBn")
    return {"pats": [rand_pat(rng, below) for _ in range(rng.choice([1, 1, 1, 2]))], "prec": rng.choice("cccccaaoo"[:rng.choice([5, 9])]),
            "cop": rng.randint(1, 2) if shape in "CB" else 0,
            "exprs": [rand_expr(rng, pool) for _ in range(rng.randint(1, 2))] if shape in "LB" else [],
            "explicit": rng.random() < 0.3}


def gen_tomls(rng, paths, pool):
    """a REUSE.toml in the root (p = 0.75) and in every directory above a file (p = 0.5), each with 1-3 tables"""
    dirs = sorted({d for p in paths for d in ancestors(p)})
    chosen = [d for d in dirs if rng.random() < (0.75 if d == "" else 0.5)]
    if not chosen:
        chosen = [rng.choice(dirs)]
    tomls = []
    for d in chosen:
        below = [p[len(d) + 1:] if d else p for p in paths if not d or p.startswith(d + "/")]
        tomls.append({"dir": d, "tables": [rand_table(rng, pool, below) for _ in range(rng.choice([1, 1, 2, 3]))]})
    return tomls


def set_own(rng, f, shape, pool):
    """own information of shape bare / C (notices only) / L (expressions only) / B (both), in a header, a .license sibling or a snippet"""
    text = f["kind"] == "text"
    f.pop("snip", None)
    if shape == "bare":
        f.update(how="bare", cop=0, exprs=[])
        return
    f["how"] = rng.choice(["header", "header", "dotlicense"]) if text else "dotlicense"
    f["style"] = style_for(f["p"])
    f["cop"] = rng.randint(1, 2) if shape in "CB" else 0
    f["exprs"] = [rand_expr(rng, pool) for _ in range(rng.randint(1, 2))] if shape in "LB" else []
    if f["how"] == "header" and rng.random() < 0.1:
        f["how"], f["style"] = "snippet", "py"
        f["snip"] = [rng.randint(1, 2), rng.choice([0, rng.randint(1, 16), rng.randint(17, 200)])]


def complete(case, f):
    rd, cop, exprs = attribution(case, f)
    return rd and cop and bool(exprs)


def settle_tomltree(rng, case, pool):
    """give every covered file of a REUSE.toml hierarchy own information of a random shape among those that make it
    compliant given what the hierarchy attributes to it (so files with half a header, or none, that are completed by one
    or two REUSE.toml files are as frequent as files with a full header); a file below an `override` table that lacks
    something gets the table completed."""
    for f in entries(case):
        generated = f["p"] != ".gitignore"
        shapes = ["bare", "C", "L", "B", "B"]
        rng.shuffle(shapes)
        done = False
        for shape in (shapes if generated else []):
            set_own(rng, f, shape, pool)
            if complete(case, f):
                done = True
                break
        if not done and not complete(case, f):
            # only an override table can stand in the way of a full header: complete that table
            for ti, k in toml_levels(case, f["p"]):
                if k is not None and case["tomls"][ti]["tables"][k]["prec"] == "o":
                    tab = case["tomls"][ti]["tables"][k]
                    tab["cop"] = tab["cop"] or 1
                    tab["exprs"] = tab["exprs"] or [rand_expr(rng, pool)]
                    break
            assert complete(case, f), (case, f)


def rand_dep5x(rng, case, pool, raw=None):
    """a dep5 paragraph with a wildcard (or naming one file), before or after the one-file paragraphs"""
    paths = [f["p"] for f in case["files"] if f["kind"] != "fifo"]
    p = rng.choice(paths)
    # (the Files field of a dep5 paragraph is a white-space separated list: a name with a blank cannot be written into it)
    kinds = ["all", "ext"] + (["below", "below"] if "/" in p and not any(c.isspace() for c in p.split("/")[0]) else []) + \
        (["lit", "lit"] if not any(c.isspace() for c in p) else [])
    k = rng.choice(kinds)
    if k == "ext" and (not os.path.splitext(p)[1] or any(c.isspace() for c in os.path.splitext(p)[1])):
        k = "all"
    pat = {"all": ["all"], "ext": ["ext", os.path.splitext(p)[1]], "below": ["below", p.split("/")[0]], "lit": ["lit", p]}[k]
    return {"pats": [pat], "cop": rng.randint(1, 2), "expr": rand_expr(rng, pool), "raw": raw, "pos": rng.choice(["before", "before", "after"])}


# What a Git repository ignores, and covered files whose names merely begin like an ignored entry (or are the beginning of one):
# (entries of .gitignore, ignored files written to disk, names of look-alike covered files)
IGNORE_GROUPS = [
    (["/build/"], ["build/out.o", "build/sub/x.o"], ["build.gradle", "build.sh", "build-tools/x.py", "builder/m.c", "buil", "build.o.txt"]),
    (["build/"], ["build/out.o"], ["build.gradle", "builds/a.py", "src/build.c", "b"]),
    (["/info"], ["info"], ["information.py", "info.txt", "inf", "info-set/r.sql"]),
    (["/notes.txt"], ["notes.txt"], ["notes.txt.in", "notes.tx", "notes.txt2.html"]),
    (["/src/out/"], ["src/out/gen.c", "src/out/gen.h"], ["src/output.c", "src/out.c", "src/ou", "src/out-of-tree/z.py"]),
    (["*.log"], ["run.log", "src/deep.log"], ["src/deep.logs/k.py", "run.log.txt", "run.logic.py", "run", "src/deep.lo"]),
    (["/tmp/", "/cache"], ["tmp/t.bin", "cache"], ["tmp.py", "tmpl/u.html", "cache.c", "cached/v.tex", "t"]),
    (["/src/gen"], ["src/gen"], ["src/gen.py", "src/generated/g.cpp", "src/g"]),
]


# Directories exempt from the walk are those *called* .git, .hg, .sl, LICENSES or .reuse.  Directories whose names have one of
# these as a proper prefix, a proper suffix or in the middle, or differ in case only, are ordinary directories:
LOOKALIKE_DIRS = [".github", ".gitlab", ".gitea", ".git2", ".hgpatches", ".hg-old", ".slack", ".slurm", ".reuse-cache", ".reused",
                  "LICENSES-thirdparty", "LICENSES.old", "LICENSES2", "LICENSESX",
                  "x.git", "repo.git", "old.hg", "a.sl", "my.reuse", "OLD-LICENSES", "MYLICENSES", "_.git", "0.reuse",
                  "x.git.d", "a.hg.b", "pre-LICENSES-post", "a.reuse.b", "x.sl.y", "..git", ".git.git", "LICENSESLICENSES",
                  "licenses", "Licenses", ".GIT", ".Hg", ".Reuse", ".SL", "git", "hg", "reuse", "sl", "LICENSE S"]
LOOKALIKE_SUB = ["", "", "", "workflows/", "in/ner/", "hooks/"]
LOOKALIKE_ABOVE = ["", "", "", "src/", "docs/deep/", "lib/x y/"]
LOOKALIKE_FILES = ["w.py", "ci.c", "notes.txt", "page.html", "q.sql"]
# regular files (below the top level) that are called what an exempt directory is called: covered like any other file
EXEMPT_NAMED_FILES = ["src/.hg", "lib/.sl", "docs/LICENSES", "src/deep/.reuse", "lib/.hg"]


def lookalike_path(rng):
    if rng.random() < 0.15:
        return rng.choice(EXEMPT_NAMED_FILES)
    above = rng.choice(LOOKALIKE_ABOVE)
    if rng.random() < 0.15:
        above = rng.choice(LOOKALIKE_DIRS) + "/"        # one inside another
    return above + rng.choice(LOOKALIKE_DIRS) + "/" + rng.choice(LOOKALIKE_SUB) + rng.choice(LOOKALIKE_FILES)


def compliant_case(rng, nfiles=None, glob=None):
    """compliant by construction: every file has a notice and expressions over valid, current identifiers, each
    provided as ID.<ext> (some in sub-directories, some with a .license companion), nothing else in LICENSES/."""
    cl = id_classes()
    pool = rng.sample(cl["current"], 4) + rng.sample(cl["licref"], 2) + ["MIT", "0BSD"]
    glob = glob or rng.choice(["none", "none", "toml", "dep5", "tomltree", "tomltree"])
    n = nfiles or rng.randint(1, 6)
    names = NAMES
    if glob == "tomltree":
        names, n = NAMES + TREE_NAMES + TREE_NAMES, max(n, rng.randint(2, 7))
    files = []
    chosen = sorted(set(rng.sample(names, n)), key=names.index)
    if rng.random() < 0.3:
        # covered files in directories whose names merely contain the name of an exempt directory, and covered files named like one
        for q in [lookalike_path(rng) for _ in range(rng.randint(1, 3))]:
            if not any(q == c or q.startswith(c + "/") or c.startswith(q + "/") for c in chosen):
                chosen.append(q)
    git = rng.random() < 0.2
    if git:
        # Git itself refuses to track anything below a directory called `.git` in any spelling of upper and lower case
        chosen = [c for c in chosen if not any(part.lower() == ".git" for part in c.split("/"))]
    groups = []
    if git and rng.random() < 0.85:
        groups = rng.sample(IGNORE_GROUPS, rng.choice([1, 1, 2, 3]))
        if any(g[0] == ["/build/"] for g in groups) and any(g[0] == ["build/"] for g in groups):
            groups = [g for g in groups if g[0] != ["build/"]]
        for pats, ign, alike in groups:
            # the first look-alike is always taken: it sits in the deepest directory that holds an ignored entry, so that this
            # directory has a tracked file (Git does not look for ignored files inside wholly untracked directories: C03)
            chosen += [alike[0]] + rng.sample(alike[1:], rng.randint(0, min(2, len(alike) - 1)))
    for p in chosen:
        kind = "binary" if p.endswith(".png") else "text"
        hows = ["dotlicense"] if kind == "binary" else ["header", "header", "dotlicense"]
        if glob == "toml":
            hows += ["global", "header+global"] if kind == "text" else ["global"]
        if glob == "dep5" and " " not in p:
            hows += ["global"]
        how = rng.choice(hows)
        if kind == "text" and how == "header" and rng.random() < 0.12:
            how = "snippet"
        ne = 1 if (how == "global" and glob == "dep5") else rng.randint(1, 3)
        f = mkfile(p, [rand_expr(rng, pool) for _ in range(ne)], cop=rng.randint(1, 2), how=how, kind=kind, style=style_for(p))
        if how == "snippet":
            f["snip"] = [rng.randint(1, 3), rng.choice([0, 0, rng.randint(1, 16), rng.randint(1, 16), rng.randint(17, 200)])]
            f["style"] = "py"
        if how == "header+global":
            f["gcop"] = rng.randint(0, 1)
            f["gexprs"] = [rand_expr(rng, pool) for _ in range(rng.randint(0, 2))]
        files.append(f)
    case = {"files": files, "lic": [], "glob": glob, "extra": [], "git": git}
    if case["git"]:
        case["gitignore_lic"] = rng.choice(pool)
        # the covered files are tracked (always when something below a sub-directory is ignored, see IGNORE_GROUPS)
        case["gitadd"] = any(q.startswith("src/") for g in groups for q in g[1]) or rng.random() < 0.6
    if glob == "tomltree":
        case["tomls"] = gen_tomls(rng, [f["p"] for f in entries(case)], pool)
        settle_tomltree(rng, case, pool)
    if glob == "dep5" and rng.random() < 0.5:
        case["dep5x"] = [rand_dep5x(rng, case, pool) for _ in range(rng.randint(1, 2))]
    for x in sorted(used_ids(case)):
        b = base(x)
        name = b + rng.choice([".txt", ".txt", ".md", ".text"])
        if rng.random() < 0.2:
            name = "sub/" + name
        if not any(n.rsplit("/", 1)[-1].rsplit(".", 1)[0] == b for n in case["lic"]):
            case["lic"].append(name)
            if rng.random() < 0.15:
                case["lic"].append(name + ".license")
    # non-covered material that must not show up anywhere
    for x in rng.sample([dict(k="plain", p="LICENSE"), dict(k="plain", p="COPYING.md"), dict(k="plain", p="doc/LICENSE-MIT"),
                         dict(k="plain", p="bom.spdx"), dict(k="plain", p="orphan.license"), dict(k="empty", p="src/empty.py"),
                         dict(k="symlink", p="link.py", to=files[0]["p"]), dict(k="dir", p="emptydir")], rng.randint(0, 4)):
        case["extra"].append(x)
    for pats, ign, alike in groups:
        for k, q in enumerate(ign):
            # the ignored material carries licence tags of its own now and then: it must not be looked at
            case["extra"].append(dict(k="gitignored", p=q, pats=pats if k == 0 else [], tags=rng.random() < 0.3))
    return case


DEFECTS = ["missing", "unused", "bad-used", "bad-provided", "deprecated", "noext", "nocop", "nolic", "readerr", "noboth",
           "wrongcase", "licref-missing", "licref-noext", "plus-only-provided", "emptycop",
           "dep5-broken", "choke-tag", "toml-strip", "toml-prec", "toml-shadow",
           "licreflike-used-provided", "related-provided"]

# License fields of a dep5 paragraph that are not SPDX licence expressions (unbalanced parentheses, dangling or doubled
# operators, informal lists): the licence of every file the paragraph applies to cannot be determined
BROKEN_LICENSE = ["MIT/X11", "MIT, Apache-2.0", "MIT and/or Apache-2.0", "(MIT", "MIT AND", "MIT OR OR ISC", ")", "MIT WITH",
                  "MIT (ISC)", "()", "( AND MIT", "( OR 0BSD"]
# tag values on which the expression parser does not answer "not an expression" but fails with an internal error
CHOKES = ["()", "( )", "( AND MIT", "( OR ISC", "(()"]


def inject(rng, case, kind):
    cl = id_classes()
    files = [f for f in case["files"] if f["kind"] != "fifo"]
    f = rng.choice(files)

    def add_expr(target, e):
        if target["how"] == "bare":
            target["how"] = "header" if target["kind"] == "text" else "dotlicense"
        if target["how"] == "global" and case["glob"] == "dep5":
            target["exprs"] = [["AND", target["exprs"][0], e]]
        elif target["how"] == "header+global":
            target["exprs"] = list(target["exprs"]) + [e]
        else:
            target["exprs"] = list(target["exprs"]) + [e]

    have = {n.rsplit("/", 1)[-1] for n in case["lic"]}
    if kind == "missing":
        lics = [n for n in case["lic"] if not n.endswith(".license")]
        if lics:
            n = rng.choice(lics)
            case["lic"] = [m for m in case["lic"] if m != n and m != n + ".license"]
    elif kind == "unused":
        x = rng.choice(cl["current"] + cl["exception"])
        if not any(h.startswith(x + ".") for h in have):
            case["lic"].append(x + ".txt")
    elif kind == "bad-used":
        add_expr(f, K(rng.choice(cl["unknown"] + cl["licreflike"])))
    elif kind == "licreflike-used-provided":
        # an ill-formed LicenseRef- that is used and has its text: still neither an SPDX identifier nor a LicenseRef-
        x = rng.choice(cl["licreflike"])
        add_expr(f, K(plus(x) if rng.random() < 0.15 else x))
        if not any(h.startswith(x) for h in have):
            case["lic"].append(("sub/" if rng.random() < 0.2 else "") + x + rng.choice([".txt", ".txt", ".md"]))
    elif kind == "related-provided":
        # the text in LICENSES/ belongs to another identifier of the same family (X / X+ / X-only / X-or-later)
        st = rng.choice(gnu_stems())
        u, pr = rng.sample(gnu_forms(st), 2)
        if not any(h.startswith(st) for h in have):
            add_expr(f, K(u))
            case["lic"].append(pr + rng.choice([".txt", ".txt", ".md"]))
    elif kind == "wrongcase":
        add_expr(f, K(rng.choice(cl["wrongcase"])))
    elif kind == "bad-provided":
        x = rng.choice(cl["unknown"] + cl["wrongcase"] + cl["licreflike"] + LICREF_LIKE_NAMES)
        if not any(h.startswith(x) for h in have):
            case["lic"].append(x + ".txt")
    elif kind == "deprecated":
        x = rng.choice(cl["deprecated"])
        if not any(h.startswith(base(x) + ".") or h.startswith(x + ".") for h in have) and "." not in x.replace(".0", ""):
            add_expr(f, K(x))
            case["lic"].append(x + ".txt")
    elif kind == "noext":
        lics = [n for n in case["lic"] if not n.endswith(".license") and n + ".license" not in case["lic"]
                and n.rsplit(".", 1)[0].rsplit("/", 1)[-1] in table()]
        if lics:
            n = rng.choice(lics)
            case["lic"] = [m if m != n else n.rsplit(".", 1)[0] for m in case["lic"]]
    elif kind == "licref-noext":
        lics = [n for n in case["lic"] if not n.endswith(".license") and n + ".license" not in case["lic"]
                and is_licref(n.rsplit(".", 1)[0].rsplit("/", 1)[-1]) and "." not in n.rsplit(".", 1)[0]]
        if lics:
            n = rng.choice(lics)
            case["lic"] = [m if m != n else n.rsplit(".", 1)[0] for m in case["lic"]]
    elif kind == "licref-missing":
        add_expr(f, K("LicenseRef-not-provided"))
    elif kind == "plus-only-provided":
        add_expr(f, K("EUPL-1.2"))
        if not any(h.startswith("EUPL-1.2") for h in have):
            case["lic"].append("EUPL-1.2+.txt")
    elif kind == "emptycop":
        # REUSE.toml says `SPDX-FileCopyrightText = ""` (or `[""]`) for the file and nothing else supplies a notice
        if case["glob"] in ("none", "toml") and f["exprs"]:
            case["glob"] = "toml"
            f["how"], f["cop"], f["emptycop"] = "global", 0, rng.choice(['""', '[""]'])
    elif kind == "nocop":
        f["cop"] = 0
        if f["how"] == "header+global":
            f["gcop"] = 0
        if f["how"] == "global" and case["glob"] == "dep5":
            f["how"], f["style"] = ("header", style_for(f["p"])) if f["kind"] == "text" else ("dotlicense", "txt")
    elif kind == "nolic":
        f["exprs"] = []
        if f["how"] == "header+global":
            f["gexprs"] = []
        if f["how"] == "global" and case["glob"] == "dep5":
            f["how"], f["style"] = ("header", style_for(f["p"])) if f["kind"] == "text" else ("dotlicense", "txt")
    elif kind == "noboth":
        f["cop"], f["exprs"] = 0, []
        f["how"], f["style"] = ("header", style_for(f["p"])) if f["kind"] == "text" else ("dotlicense", "txt")
    elif kind == "dep5-broken":
        # a paragraph whose License field is no licence expression: no report can be produced for the files it applies to
        if case["glob"] == "none":
            case["glob"] = "dep5"
        if case["glob"] == "dep5":
            case.setdefault("dep5x", []).append(rand_dep5x(rng, case, ["MIT"], raw=rng.choice(BROKEN_LICENSE)))
    elif kind == "choke-tag":
        own = [g for g in files if g["how"] in OWN_HOWS]
        if own:
            rng.choice(own)["choke"] = rng.choice(CHOKES)
    elif kind in ("toml-strip", "toml-prec", "toml-shadow"):
        if case["glob"] == "tomltree":
            t = rng.choice(case["tomls"])
            tab = rng.choice(t["tables"])
            if kind == "toml-strip":
                what = rng.choice(["cop", "exprs", "both"])
                if what in ("cop", "both"):
                    tab["cop"] = 0
                if what in ("exprs", "both"):
                    tab["exprs"] = []
            elif kind == "toml-prec":
                tab["prec"] = rng.choice([x for x in "cao" if x != tab["prec"]])
            else:
                # one more table at the end of the file: it applies instead of the earlier ones to whatever it matches
                d = t["dir"]
                below = [g["p"][len(d) + 1:] if d else g["p"] for g in files if not d or g["p"].startswith(d + "/")]
                if below:
                    shape = rng.choice("nnCL")
                    t["tables"].append({"pats": [rand_pat(rng, below)], "prec": rng.choice("cccao"), "cop": 1 if shape == "C" else 0,
                                        "exprs": [K("MIT")] if shape == "L" else []})
    elif kind == "readerr":
        p = rng.choice(["pipe", "src/fifo.py", "data/named pipe"])
        if not any(g["p"] == p for g in case["files"]):
            case["files"].append(mkfile(p, [], cop=0, kind="fifo"))
    return case


def defect_case(rng, kinds):
    glob = None
    if any(k.startswith("toml-") for k in kinds):
        glob = "tomltree"
    elif "dep5-broken" in kinds and rng.random() < 0.6:
        glob = "dep5"
    case = compliant_case(rng, glob=glob)
    for k in kinds:
        case = inject(rng, case, k)
    # drop licences that lost their last user only when the defect was not about them: keep as is (an unused
    # licence is then simply one more defect the oracle expects)
    case["defects"] = list(kinds)
    return case


# ----------------------------------------------------------------------------
# licence texts reached through symbolic links (see LINK in the module docstring)

FILE_LINK_KINDS = ["alias", "project", "project", "hidden", "outside", "outside", "chain"]
DIR_LINK_KINDS = ["nested", "dotreuse", "hidden", "outside", "outside"]


def add_lic_links(rng, case):
    """Some of the LICENSES/ entries of `case` become symbolic links: one to three entries links to regular files (another text
    of LICENSES/, a file elsewhere in the project, a hidden store below LICENSES/, a file outside the project, a link to a link),
    a sub-directory — an existing one, a new one into which entries move, now and then LICENSES itself — a link to a directory
    (a LICENSES/ directory elsewhere in the project, below .reuse/, a hidden one, one outside the project), and a dangling link
    named like a licence text.  Which identifiers are provided does not change: a link is named by its own name."""
    specs = []
    texts = [n for n in case["lic"] if not n.endswith(".license")]
    r = rng.random()
    dir_n = None
    if texts and r < 0.07:
        dir_n = ""
    elif texts and r < 0.5:
        subs = sorted({n.split("/")[0] for n in texts if "/" in n})
        if subs and rng.random() < 0.5:
            dir_n = rng.choice(subs)
        else:
            dir_n = rng.choice(["shared", "third-party", "deep/er", "x y"])
            if not any(n == dir_n or n.startswith(dir_n.split("/")[0] + "/") or n.split(".")[0] == dir_n for n in case["lic"]):
                moved = set(rng.sample(texts, rng.randint(1, min(3, len(texts)))))
                moved |= {m + ".license" for m in moved}
                case["lic"] = [dir_n + "/" + n if n in moved else n for n in case["lic"]]
                texts = [n for n in case["lic"] if not n.endswith(".license")]
            else:
                dir_n = None
    if dir_n is not None:
        specs.append({"n": dir_n, "k": "dir", "to": rng.choice(DIR_LINK_KINDS if dir_n else ["dotreuse", "outside", "nested"]), "abs": rng.random() < 0.3})
    chosen = rng.sample(texts, min(len(texts), rng.choice([0, 1, 1, 2, 3]) if dir_n is not None else rng.choice([1, 1, 2, 3])))
    for n in chosen:
        spec = {"n": n, "k": "file", "to": rng.choice(FILE_LINK_KINDS), "abs": rng.random() < 0.25}
        if spec["to"] == "alias":
            others = [m for m in texts if m not in chosen]
            if others:
                spec["target"] = rng.choice(others)
            else:
                spec["to"] = "project"
        specs.append(spec)
    if rng.random() < 0.35:
        # a dangling link is no licence text: whatever it is called, nothing is provided and nothing is to be reported about it
        have = {carried(n.rsplit("/", 1)[-1])[0] for n in texts}
        x = rng.choice([rng.choice(id_classes()["current"]), rng.choice(id_classes()["deprecated"]), "nonsense", "LicenseRef-dangling"]
                       + sorted(used_ids(case) - have)[:2])
        x = base(x)
        if x not in have and "/" not in x:
            d = rng.choice(["", "", "sub/"] + ([dir_n + "/"] if dir_n else []))
            specs.append({"n": d + x + rng.choice([".txt", ".txt", ""]), "k": "dangling"})
    if specs:
        case["liclinks"] = specs
    return case


def leaves_project(case):
    return any(l.get("to") == "outside" for l in case.get("liclinks", []))


LINK_MODES = ([("file", to) for to in ("alias", "project", "hidden", "outside", "chain")]
              + [("dir", to) for to in ("nested", "dotreuse", "hidden", "outside")]
              + [("root", to) for to in ("nested", "dotreuse", "outside")] + [("dangling", None)])


def link_product_case(rng, cls, x, use, mode):
    """a cell of C06's quantifier whose LICENSES/ entry for x is reached through a symbolic link: to a file, below a
    sub-directory that is a link, below a LICENSES that is a link, or only as a dangling link (= not provided)"""
    kind, to = mode
    if kind == "file":
        prov = rng.choice(["ID.txt", "ID.txt", "ID.md", "ID", "sub/ID.txt", "ID+.txt"])
    elif kind == "dir":
        prov = "sub/ID.txt"
    elif kind == "root":
        prov = rng.choice(["ID.txt", "ID", "sub/ID.txt"])
    else:
        prov = "absent"
    c = product_case(cls, x, use, prov)
    absolute = rng.random() < 0.3
    if kind == "file":
        spec = {"n": c["lic"][-1], "k": "file", "to": to, "abs": absolute}
        if to == "alias":
            spec["target"] = c["lic"][0]        # the filler's text
        specs = [spec]
    elif kind == "dir":
        specs = [{"n": rng.choice(["sub", "sub/dir"]), "k": "dir", "to": to, "abs": absolute}]
    elif kind == "root":
        specs = [{"n": "", "k": "dir", "to": to, "abs": absolute}]
    else:
        specs = [{"n": rng.choice(["", "sub/"]) + x + rng.choice([".txt", ".txt", ".md", ""]), "k": "dangling"}]
    c["liclinks"] = specs
    c["cell"][3] = "link:%s:%s:%s" % (kind, to, prov)
    if to == "outside":
        c["root"] = rng.choice(places.ROOT_NAMES[:6])
    return c


def link_product_cases(tier, rng):
    cl = id_classes()
    if tier == "thorough":
        for c in cl:
            for u in USES:
                for m in LINK_MODES:
                    yield link_product_case(rng, c, rng.choice(cl[c]), u, m)
        return
    for m in LINK_MODES:
        for c, u in (("current", rng.choice(["alone", "and", "toml"])), ("current", "unused"),
                     (rng.choice(["deprecated", "unknown", "licref", "wrongcase"]), rng.choice(["alone", "unused", "plus"]))):
            yield link_product_case(rng, c, rng.choice(cl[c]), u, m)
    for c in cl:
        for u in USES:
            yield link_product_case(rng, c, rng.choice(cl[c]), u, rng.choice(LINK_MODES))


def dup_free(case):
    """the tool stops with an error when two LICENSES/ entries resolve to one identifier (property C16): not generated"""
    seen = set()
    for n in case["lic"]:
        last = n.rsplit("/", 1)[-1]
        if last.endswith(".license"):
            continue
        i = carried(last)[0]
        # the tool resolves by stem first: treat both readings as taken
        j = last[:last.rfind(".")] if 0 < last.rfind(".") < len(last) - 1 else last
        for k in {i, j}:
            if k in seen:
                return False
        seen.update({i, j})
    return True


def _tree_cases(tier, rng):
    n = {"quick": 60, "thorough": 600}[tier]
    for i in range(n):
        yield defect_case(rng, [])
    for k in DEFECTS:
        for i in range({"quick": 6, "thorough": 60}[tier]):
            yield defect_case(rng, [k])
    for i in range({"quick": 150, "thorough": 1500}[tier]):
        yield defect_case(rng, [rng.choice(DEFECTS) for _ in range(rng.randint(2, 5))])


def tree_cases(tier, rng):
    """... one project in four lives in a directory with an unusual name, next to a look-alike neighbour (places.py)"""
    for case in _tree_cases(tier, rng):
        name = places.choose(rng)
        if name:
            case["root"] = name
        if case["lic"] and rng.random() < 0.3:
            add_lic_links(rng, case)
            if leaves_project(case) and not case.get("root"):
                case["root"] = rng.choice(places.ROOT_NAMES[:6])
        yield case


# ----------------------------------------------------------------------------
# stream base


def ambiguous_entry(case):
    """a LICENSES/ entry whose whole name is a listed identifier X.Y with X itself an identifier (known finding)"""
    t = table()
    for n in case["lic"]:
        last = n.rsplit("/", 1)[-1]
        i = last.rfind(".")
        if last in t and 0 < i < len(last) - 1 and (last[:i] in t or is_licref(last[:i])):
            return True
    return False


def diff_kind(case, got, exp, cats):
    """a short kind for the first way `got` departs from `exp` on the categories `cats`"""
    wrong = [c for c in cats if got[c] != exp[c]]
    if not wrong:
        return None
    if ambiguous_entry(case) and set(wrong) <= {"missing", "unused", "noext", "bad", "deprecated", "compliant", "exit"}:
        return "spdx-name-with-identifier-stem: LICENSES/ entry named by a listed identifier is read as a shorter identifier plus extension (%s differ)" % ",".join(wrong)
    if "bad" in wrong:
        extra = [x for x in got["bad"] if x not in exp["bad"]]
        for i, p in extra:
            if is_licref(i) or is_licref(base(i)):
                if p.startswith("LICENSES/"):
                    return "licenseref-provided-listed-bad: %s (%s) is reported under bad licences although it is a LicenseRef-" % (i, p)
                return "licenseref-used-listed-bad: %s used by %s is reported under bad licences although it is a LicenseRef-" % (i, p)
    if "noext" in wrong:
        lost = [x for x in exp["noext"] if x not in got["noext"]]
        if lost and all(is_licref(x) for x in lost):
            return "extensionless-licenseref-accepted: LICENSES/%s has no file extension and is not reported (exit %s)" % (lost[0], got.get("exit"))
    return "category-mismatch: %s; got %s, demanded %s" % (
        ",".join(wrong), json.dumps({c: got[c] for c in wrong})[:300], json.dumps({c: exp[c] for c in wrong})[:300])


class ReportStream:
    """mixin: impl / model sides shared by the C06 and C01 streams"""

    mp_every = 0

    def impl(self, case):
        return run_lint_json(case, mp=bool(case.get("mp")))

    def model_lines(self, case):
        return ["report\t" + "\t".join(model_fields(case))]

    def model_out(self, case, outs):
        return model_report_out(outs[0])

    def agree(self, case, impl_out, model_out):
        if impl_out.startswith("EXC"):
            return impl_out == model_out
        d = json.loads(impl_out)
        d.pop("files", None)
        return json.dumps(d, sort_keys=True) == model_out

    def show(self, case):
        return {k: v for k, v in case.items()}

    def classify(self, case, failure):
        if failure.startswith("spdx-name-with-identifier-stem"):
            return "extensionless-id-with-identifier-stem"
        return None

    def nontrivial(self, case, impl_out):
        return None if impl_out.startswith("EXC") else impl_out


def table_roundtrip():
    """the generated Lean table, printed back by the driver, equals the live Python dictionaries"""
    from core import run_driver, dec
    out = run_driver(["spdxtable"])[0]
    got = []
    for item in out.split(";"):
        k, d = item.rsplit(":", 1)
        got.append((dec(k), d == "1"))
    from reuse._licenses import EXCEPTION_MAP, LICENSE_MAP
    want = dict(LICENSE_MAP)
    want.update(EXCEPTION_MAP)
    want = [(k, bool(v.get("isDeprecatedLicenseId"))) for k, v in want.items()]
    if got != want:
        return "Generated/Spdx.lean differs from reuse._licenses (%d vs %d entries)" % (len(got), len(want))
    # the two lexical helpers against CPython (pathlib, re) on the names the streams use and on edge shapes
    import pathlib
    from reuse.extract import _LICENSEREF_PATTERN
    names = ["MIT.txt", "MIT", ".txt", "a.", "a.b.c", "GPL-2.0", "OLDAP-2.0.1", "LicenseRef-a.b", "x.license", ".license", "a..b", "..",
             "LicenseRef-", "LicenseRef-.txt", "LicenseRef-a_b", "LicenseRef-a\n", "LicenseRef-a\n\n", "xLicenseRef-a", "LicenseRef-a+",
             "LicenseRef-é", "LicenseRef-A.9-", "licenseref-a", "é.ü", "MIT+.txt"]
    outs = run_driver(["stemsuffix\t" + enc(n) for n in names] + ["licref\t" + enc(n) for n in names])
    for n, o in zip(names, outs[:len(names)]):
        a, b = o.split("|")
        pp = pathlib.PurePosixPath(n)
        if (dec(a), dec(b)) != (pp.stem, pp.suffix) and n not in ("..",):
            return "stemSuffix(%r) = %r, pathlib says %r" % (n, (dec(a), dec(b)), (pp.stem, pp.suffix))
    for n, o in zip(names, outs[len(names):]):
        if (o == "1") != bool(_LICENSEREF_PATTERN.match(n)):
            return "isLicenseRef(%r) = %s, re says otherwise" % (n, o)
    return ""
