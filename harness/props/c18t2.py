"""C18, one more region of the input space: characters that are neither letters nor line breaks inside the *values* the document
copies from the project — copyright lines (header, .license, REUSE.toml) and the texts of LicenseRef- licences: terminal control
sequences (CSI colour / cursor sequences, OSC, a lone ESC), other C0 controls (BEL, BS, SOH, DEL), and Unicode format characters
(zero-width space, bidirectional override, a byte order mark in mid-text, no-break space).  A bill of materials is data: the
property demands "exactly the … copyright lines that lint attributes to that file" and every LicenseRef- licence "with its text",
whatever the text is made of and wherever the document goes (a pipe, `--output`).

`oddchars` — the trees of the `tree` stream with such characters planted into a random subset of holders and licence texts (at the
             beginning, in the middle, at the end of a value; several per value); every option set; same model, same oracle (lint
             --json is the reference for the copyright lines, the generator's bytes for the licence texts).

Left out on purpose: characters `str.splitlines` / `str.strip` treat as line boundaries or white space (\\x0b \\x0c \\x1c-\\x1f \\x85
U+2028 U+2029: C02's documented boundary for notices) and NUL (decides text / binary).
"""
import c18 as base

CSI = ["\x1b[31m", "\x1b[0m", "\x1b[1;32m", "\x1b[2J", "\x1b[10;20H", "\x1b[K", "\x1b[?25l", "\x1b[38;5;208m", "\x9b1m"]
OTHER_ESC = ["\x1b]0;title\x07", "\x1b", "\x1b(B", "\x1bc", "\x1b[", "\x1b[31"]
C0 = ["\x07", "\x08", "\x01", "\x7f", "\x0e", "\x1a"]
FORMAT = ["\u200b", "\u202e", "\ufeff", "\u2060", "\xad", "\u200f"]
ODD = CSI + OTHER_ESC + C0 + FORMAT


def plant(rng, value, toml=False):
    """`value` with 1-3 odd pieces put in front of / inside / behind its words (never next to its two ends as white space would be:
    every piece is a non-blank for str.strip, so the value lint reads is the value written)"""
    words = value.split(" ")
    for _ in range(rng.randint(1, 3)):
        piece = rng.choice(rng.choice([CSI, CSI, OTHER_ESC, C0, FORMAT]))
        if toml and piece == "\x7f":      # TOML has no way to write a raw DEL in a basic string (json.dumps leaves it raw)
            piece = "\x07"
        i = rng.randrange(len(words))
        w = words[i]
        where = rng.choice(["front", "mid", "back", "wrap"])
        if where == "front":
            words[i] = piece + w
        elif where == "back":
            words[i] = w + piece
        elif where == "mid":
            k = rng.randint(0, len(w))
            words[i] = w[:k] + piece + w[k:]
        else:
            words[i] = piece + w + rng.choice(["\x1b[0m", piece])
    return " ".join(words)


def sniffed_binary(f, src):
    """binaryornot's verdict on the file the information is written to, as generated (the tool asks it about the covered file and
    about a FILE.license alike; it looks at the extension, then at the first 512 bytes with a decision tree over byte statistics:
    control characters count).  A parameter of the generator, like the checksum library."""
    from binaryornot.helpers import has_binary_extension, is_binary_string
    if src == "license":
        data = "".join(l + "\n" for l in base.header_lines(f["license"])).encode("utf-8")
        return is_binary_string(data[:512])
    if f["kind"] not in ("text", "big"):
        return False
    return has_binary_extension(f["path"]) or is_binary_string(base.content_of(f)[:512])


def odd_tree(rng):
    case = base.gen_tree(rng)
    planted = 0
    for f in case["files"]:
        for src in ("header", "license", "toml"):
            info = f[src]
            if info and info["c"] and rng.random() < 0.6:
                clean = list(info["c"])
                info["c"] = [plant(rng, c, toml=src == "toml") if rng.random() < 0.7 else c for c in info["c"]]
                if src in ("header", "license") and sniffed_binary(f, src):
                    info["c"] = clean       # control characters in the first 512 bytes may turn the file into a binary one
                else:
                    planted += 1
    if planted == 0:
        # make sure something carries a notice
        for f in case["files"]:
            if f["kind"] in ("text", "big") and not f["license"]:
                f["header"] = f["header"] or {"e": ["MIT"], "c": []}
                clean = list(f["header"]["c"])
                f["header"]["c"] = [plant(rng, "%d %s" % (rng.randint(1990, 2025), rng.choice(base.HOLDERS)))]
                if sniffed_binary(f, "header"):
                    f["header"]["c"] = clean
                    continue
                break
    have_ref = False
    for l in case["lics"]:
        ident = l["path"].rsplit("/", 1)[-1]
        if ident.startswith("LicenseRef-"):
            have_ref = True
            if rng.random() < 0.8:
                l["text"] = "\n".join(plant(rng, line) if line.strip() and rng.random() < 0.7 else line for line in l["text"].split("\n"))
    if not have_ref:
        case["lics"].append({"path": "LICENSES/LicenseRef-odd.txt", "text": plant(rng, "licence text with colour") + "\nsecond line\n"})
    if case["proj"] == "<text>":       # the document name is the boundary stream's matter
        case["proj"] = "proj"
    return case


class OddCharsStream(base.TreeStream):
    name = "oddchars"
    rule = ("the trees of `tree` with terminal control sequences (CSI colour / cursor / erase sequences, 8-bit CSI, OSC, lone and "
            "truncated ESC), C0 controls (BEL, BS, SOH, SO, SUB, DEL) and Unicode format characters (ZWSP, RLO, RLM, WJ, SHY, mid-text "
            "BOM) planted in front of, inside and behind the words of copyright holders (header, .license, REUSE.toml) and of "
            "LicenseRef- licence texts; every option set of `reuse spdx`, stdout and --output; same model (the document built from the "
            "generator's ground truth) and same oracle as `tree`: the copyright lines are exactly those of lint --json, the licence "
            "texts exactly the files' texts; non-trivial as in `tree`")

    def cases(self, tier, rng):
        for _ in range(250 if tier == "thorough" else 40):
            yield odd_tree(rng)


STREAMS = [OddCharsStream()]
