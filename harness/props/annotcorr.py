"""Correspondence streams for comment creation / detection and the annotate text pipeline
(shared by C07, C08, C09, C10)."""
import io
import os

from core import Stream, enc, dec, enc_list, dec_list
import cli


def all_styles():
    from reuse import comment
    return comment._all_style_classes()


def style_by_name(name):
    from reuse import comment
    return getattr(comment, name)


HEADER_TEXTS = [
    "SPDX-FileCopyrightText: 2020 Jane Doe\n\nSPDX-License-Identifier: MIT",
    "SPDX-FileCopyrightText: 2020 Jane Doe <jane@example.com>\nSPDX-FileContributor: John\n\nSPDX-License-Identifier: GPL-3.0-or-later",
    "one line", "", "\n", "a\n\nb", "ends with */ terminator", "has --> inside", "x }", "trailing blank \n next", "  indented",
    "a =# b", "*) :) #} %> ]] -->", "tab\there", "é ü 张", "\n\nleading blank lines", "x\r\ny",
]


class CreateCommentStream(Stream):
    name = "createcomment"
    exhaustive = True
    rule = "create_comment for every style of the table x {single/default, forced multi} x 17 texts (incl. texts containing terminators); non-trivial = distinct successful comment"

    def cases(self, tier, rng):
        for st in all_styles():
            for force in (False, True):
                for t in HEADER_TEXTS:
                    yield {"s": st.__name__, "f": force, "t": t}

    def impl(self, case):
        from reuse.exceptions import CommentCreateError
        try:
            return "ok:" + enc(style_by_name(case["s"]).create_comment(case["t"], force_multi=case["f"]))
        except CommentCreateError:
            return "err:create"

    def model_lines(self, case):
        return ["createcomment\t%s\t%s\t%s" % (case["s"], "1" if case["f"] else "0", enc(case["t"]))]

    def nontrivial(self, case, impl_out):
        return (case["s"], impl_out) if impl_out.startswith("ok") else None


BODY_LINES = ["import os", "    indented = 1", "", "", "x = 1", "# own comment", "// c comment", "/* block", " * middle", " */", "<!-- html -->",
              "#!/usr/bin/env python3", "<?xml version=\"1.0\"?>", "# SPDX-License-Identifier: MIT", "# SPDX-FileCopyrightText: 2019 Old",
              "/* SPDX-License-Identifier: 0BSD */", " * SPDX-FileCopyrightText: 2018 Older", "#=", "=#", "REM batch", ";; lisp", "trailing   ",
              "\ttabbed", "-- sql", "{# jinja #}", "%%", "c fortran", "(* ml *)", "print('SPDX-License-Identifier: fake')"]


def rand_body(rng, style=None):
    """A text file body: optional BOM/shebang, optional existing header (top or middle), code, line endings, final newline."""
    lines = []
    if rng.random() < 0.2:
        lines.append(rng.choice(["#!/bin/sh", "<?xml version=\"1.0\"?>", "% !TEX root", "cabal-version: 2.2", "#!/usr/bin/env julia"]))
    if rng.random() < 0.3:
        lines.append("")
    n = rng.randint(0, 7)
    for _ in range(n):
        lines.append(rng.choice(BODY_LINES))
    if style is not None and rng.random() < 0.5:
        # an existing header written in the file's own style somewhere
        hdr = rng.choice(["SPDX-FileCopyrightText: 2017 Prev Holder\n\nSPDX-License-Identifier: ISC", "SPDX-License-Identifier: Zlib",
                          "SPDX-FileCopyrightText: 2016 Someone\nSPDX-FileContributor: Helper\n\nSPDX-License-Identifier: MIT OR ISC"])
        try:
            block = style.create_comment(hdr, force_multi=rng.random() < 0.3 and style.can_handle_multi())
            pos = rng.choice([0, 0, len(lines), rng.randint(0, len(lines))])
            lines[pos:pos] = block.split("\n")
        except Exception:
            pass
    text = "\n".join(lines)
    if rng.random() < 0.75 and text:
        text += "\n"
    if rng.random() < 0.1:
        text += "\n\n"
    le = rng.choice(["\n", "\n", "\n", "\r\n", "\r"])
    if le != "\n":
        text = text.replace("\n", le)
    if rng.random() < 0.05:
        text = "﻿" + text
    return text


class CommentAtStream(Stream):
    name = "commentat"
    rule = "comment_at_first_character for every style x 25 random bodies (own-style header at the top half of the time) plus the multi/single opener corner cases; non-trivial = a block was found"

    def cases(self, tier, rng):
        k = 120 if tier == "thorough" else 25
        for st in all_styles():
            for _ in range(k):
                t = rand_body(rng, st).replace("\r\n", "\n")
                yield {"s": st.__name__, "t": t}
            for t in ["#=\nx\n=#\ncode", "#= never ends\ncode", "#=====\n# real\ncode", "/* a */ b */\nc", "// x\n/* y */\n", "", "\n", "/*\n * a\n */",
                      "(* a *)\n(* b *)", "<!--\nx\n-->\n<!-- y -->", ";;; x\n ;; y\nz", "REMARK\nREM x"]:
                yield {"s": st.__name__, "t": t}

    def impl(self, case):
        from reuse.exceptions import CommentParseError
        try:
            return "ok:" + enc(style_by_name(case["s"]).comment_at_first_character(case["t"]))
        except CommentParseError:
            return "err:parse"

    def model_lines(self, case):
        return ["commentat\t%s\t%s" % (case["s"], enc(case["t"]))]

    def nontrivial(self, case, impl_out):
        return (case["s"], impl_out) if impl_out.startswith("ok") else None


TEMPLATES = {
    "default": None,
    "adds-text": "Header of this file\n{% for c in copyright_lines %}\n{{ c }}\n{% endfor %}\n{% for c in contributor_lines %}\nSPDX-FileContributor: {{ c }}\n{% endfor %}\n\n{% for e in spdx_expressions %}\nSPDX-License-Identifier: {{ e }}\n{% endfor %}\nEnd.",
    "drops-licences": "{% for c in copyright_lines %}\n{{ c }}\n{% endfor %}\n",
    "drops-copyright": "{% for e in spdx_expressions %}\nSPDX-License-Identifier: {{ e }}\n{% endfor %}\n",
    "drops-both": "nothing to see\n",
    "no-contributors": "{% for c in copyright_lines %}\n{{ c }}\n{% endfor %}\n\n{% for e in spdx_expressions %}\nSPDX-License-Identifier: {{ e }}\n{% endfor %}\n",
    "commented": "/*\n{% for c in copyright_lines %}\n * {{ c }}\n{% endfor %}\n{% for c in contributor_lines %}\n * SPDX-FileContributor: {{ c }}\n{% endfor %}\n *\n{% for e in spdx_expressions %}\n * SPDX-License-Identifier: {{ e }}\n{% endfor %}\n */\n",
}
# templates that spell out a licence tag themselves: one whose expression the parser rejects, one that is fine
TEMPLATES["literal-bad-expression"] = TEMPLATES["no-contributors"] + "SPDX-License-Identifier: MIT OR\n"
TEMPLATES["literal-bad-expression-first"] = "SPDX-License-Identifier: (ISC\n" + TEMPLATES["adds-text"]
COMMENTED = {"commented"}


def jinja_template(name):
    if TEMPLATES[name] is None:
        return None
    from jinja2 import Environment
    return Environment(trim_blocks=True).from_string(TEMPLATES[name])


def render_with(name, cpr, con, lic):
    from reuse.header import DEFAULT_TEMPLATE
    t = jinja_template(name) or DEFAULT_TEMPLATE
    return t.render(copyright_lines=cpr, contributor_lines=con, spdx_expressions=lic)


HOLDER_LINES = ["SPDX-FileCopyrightText: 2020 Jane Doe", "SPDX-FileCopyrightText: 2021 ACME Inc. <legal@acme.example>", "Copyright (C) 2019 José Álvarez",
                "© 2018 张三", "SPDX-FileCopyrightText: Copyright 2022 R&D, Ltd.", "SPDX-FileCopyrightText: 2017 Prev Holder", "SPDX-FileCopyrightText: 2023 Eric",
                "SPDX-FileCopyrightText: 2015 - 2019 Prev Holder"]
LICS = ["MIT", "GPL-3.0-or-later", "Apache-2.0 OR MIT", "0BSD", "ISC", "GPL-2.0-only WITH Classpath-exception-2.0", "LicenseRef-custom"]
CONTRIBS = ["Alice", "Bob <bob@example.com>", "Team Rocket"]


def rand_info(rng):
    cpr = rng.sample(HOLDER_LINES, rng.randint(0, 2))
    lic = rng.sample(LICS, rng.randint(0, 2))
    con = rng.sample(CONTRIBS, rng.choice([0, 0, 1, 2]))
    if not cpr and not lic and (not con or rng.random() < 0.5):
        # a request may consist of contributors only (every non-empty subset of the three kinds of information is valid)
        cpr = [HOLDER_LINES[0]]
    return cpr, lic, con


def run_annotate(case):
    """Real add_header_to_file on a scratch file. Returns the canonical outcome string."""
    from license_expression import Licensing
    from reuse import ReuseInfo, _LICENSING
    from reuse._annotate import add_header_to_file
    st = style_by_name(case["s"])
    with cli.scratch("rv-ann-") as root:
        ext = case.get("ext", ".txt")
        path = os.path.join(root, "f" + ext)
        with open(path, "w", encoding="utf-8", newline="") as fp:
            fp.write(case["t"])
        info = ReuseInfo(spdx_expressions={_LICENSING.parse(x) for x in case["lic"]}, copyright_lines=set(case["cpr"]),
                         contributor_lines=set(case["con"]))
        out = io.StringIO()
        kw = dict(style=st.SHORTHAND or None)
        target = path
        if st.__name__ == "EmptyCommentStyle":
            kw = dict(style=None, fallback_dot_license=True)
            target = path + ".license"
            if case.get("sib") is not None:
                with open(target, "w", encoding="utf-8", newline="") as fp:
                    fp.write(case["sib"])
        rc = add_header_to_file(path, info, jinja_template(case["tmpl"]), case["tmpl"] in COMMENTED, force_multi=case["f"][1] == "1",
                                skip_existing=case["f"][4] == "1", merge_copyrights=case["f"][2] == "1", replace=case["f"][3] == "1",
                                out=out, **kw)
        msg = out.getvalue()
        if "Skipped file" in msg:
            return "S"
        if rc:
            return "F:commentCreate" if "Could not create comment" in msg else "F:missingInfo"
        with open(target, "r", encoding="utf-8", newline="") as fp:
            after = fp.read()
        return "W:" + enc(after)


class AnnotateStream(Stream):
    name = "annotate"
    rule = ("add_header_to_file on scratch files: every style of the table x random bodies (BOM, shebang, existing own-style header at top / "
            "middle, foreign comments, LF / CRLF / CR, with and without final newline) x option sets (forced multi-line, merge, no-replace, "
            "skip-existing) x 7 templates (default, text-adding, information-dropping, pre-commented) x random requested information; the model "
            "receives the text Jinja rendered for the information the model itself computed; non-trivial = distinct written result")

    def cases(self, tier, rng):
        k = 40 if tier == "thorough" else 6
        for st in all_styles():
            if st.__name__ == "UncommentableCommentStyle":
                continue
            for _ in range(k):
                cpr, lic, con = rand_info(rng)
                force = "1" if (st.can_handle_multi() and rng.random() < 0.3) else "0"
                tmpl = rng.choice(["default"] * 6 + ["adds-text", "drops-licences", "drops-copyright", "drops-both", "no-contributors", "commented"])
                flags = ("1" if tmpl in COMMENTED else "0") + force + rng.choice("0001") + rng.choice("1110") + rng.choice("00001")
                case = {"s": st.__name__, "f": flags, "tmpl": tmpl, "cpr": cpr, "lic": lic, "con": con, "t": rand_body(rng, st)}
                if st.__name__ == "EmptyCommentStyle":
                    case["ext"] = ".zzz"
                    case["sib"] = rng.choice([None, "", "SPDX-FileCopyrightText: 2001 Sib\n\nSPDX-License-Identifier: Zlib\n"])
                yield case

    def _text(self, case):
        if case["s"] == "EmptyCommentStyle":
            return case.get("sib") or ""
        return case["t"]

    def impl(self, case):
        return run_annotate(case)

    def model_lines(self, case):
        # round 0: every raw licence value the model can come across in this text (as written and with normalised line
        # endings); the harness asks the real parser which of them do not parse — that is the model's `parses` oracle
        t = self._text(case)
        norm = t.replace("\r\n", "\n") if "\r\n" in t else t.replace("\r", "\n")
        return ["findtag\tL\t" + enc(t), "findtag\tL\t" + enc(norm)]

    def model_out(self, case, outs):
        from core import run_driver
        from reuse import _LICENSING
        bad = []
        for v in set(dec_list(outs[0]) + dec_list(outs[1])):
            try:
                _LICENSING.parse(v)
            except Exception:
                bad.append(v)
        bad = enc_list(sorted(bad))
        args = (case["s"], case["f"], enc_list(case["cpr"]), enc_list(case["con"]), enc_list(case["lic"]), bad, enc(self._text(case)))
        info = run_driver(["hdrinfo\t%s\t%s\t%s\t%s\t%s\t%s\t%s" % args])[0]
        if info == "none" or case["tmpl"] == "default":
            tm = "default"
        else:
            c, n, l = (dec_list(x) for x in info.split("|"))
            tm = "rendered:" + enc(render_with(case["tmpl"], c, n, l))
        line = "annotate\t%s\t%s\t%s\t%s\t%s\t%s\t%s\t%s" % (case["s"], case["f"], tm, enc_list(case["cpr"]), enc_list(case["con"]),
                                                               enc_list(case["lic"]), bad, enc(self._text(case)))
        return run_driver([line])[0]

    def nontrivial(self, case, impl_out):
        return (case["s"], impl_out) if impl_out.startswith("W:") else None

    def show(self, case):
        return {k: case[k] for k in ("s", "f", "tmpl", "cpr", "lic", "con", "t") if k in case}
