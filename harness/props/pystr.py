"""Correspondence of the Python string semantics in lean/ReuseVerif/Py/Str.lean with CPython itself
(str.isspace / the strip family, str.splitlines, find, split, replace).  These mirrors sit under every
text-engine model (C02, C07-C10, C12, C20), so the streams are shared: a property that depends on them
lists `pystr.STREAMS` among its own streams."""
import itertools

from core import Stream, enc, dec, enc_list, dec_list

# every character class boundary the mirrors distinguish, plus neighbours that must NOT be special
ALPHA = ["a", " ", "\t", "\n", "\r", "\x0b", "\x0c", "\x1c", "\x1f", "\x85", "\xa0", " ", "​", "　", "/"]


class CharClassStream(Stream):
    """str.isspace and the str.splitlines break set over all of Unicode (surrogates excluded: they cannot occur
    in text decoded from UTF-8)."""
    name = "pychars"
    exhaustive = True
    rule = ("every code point U+0000..U+10FFFF except surrogates, in 272 blocks of 4096: Py.isSpace against str.isspace and "
            "Py.isLineBreak against the break set of str.splitlines; non-trivial = block containing a special character")
    BLOCK = 4096

    def cases(self, tier, rng):
        for lo in range(0, 0x110000, self.BLOCK):
            if 0xD800 <= lo < 0xE000:
                continue
            yield {"lo": lo}

    def _text(self, case):
        return "".join(chr(c) for c in range(case["lo"], case["lo"] + self.BLOCK) if not 0xD800 <= c < 0xE000)

    def impl(self, case):
        t = self._text(case)
        sp = "".join("1" if c.isspace() else "0" for c in t)
        lb = "".join("1" if len(("a" + c + "b").splitlines()) == 2 else "0" for c in t)
        return sp + "|" + lb

    def model_lines(self, case):
        e = enc(self._text(case))
        return ["py.isspace\t" + e, "py.islinebreak\t" + e]

    def model_out(self, case, outs):
        return outs[0] + "|" + outs[1]

    def nontrivial(self, case, impl_out):
        return case["lo"] if "1" in impl_out else None

    def show(self, case):
        return {"block": "U+%04X.." % case["lo"]}


def _norm_find(i):
    return "none" if i < 0 else str(i)


class StrOpsStream(Stream):
    name = "pystrops"
    rule = ("strip / lstrip / rstrip / splitlines(keepends False, True) / find / split / replace on every string of <=3 characters "
            "over a 15-character alphabet straddling every class boundary (blanks, the ten line breaks, NBSP, U+200B which is "
            "neither, '/') and on random strings up to 24 characters; patterns for find / split / replace from {'\\n', '\\r\\n', "
            "'\\r', 'a/', '//'}; non-trivial = distinct result tuple")
    PATS = ["\n", "\r\n", "\r", "a/", "//"]

    def cases(self, tier, rng):
        n = 3
        for k in range(0, n + 1):
            for t in itertools.product(ALPHA, repeat=k):
                yield {"s": "".join(t), "p": self.PATS[(len(t) + sum(map(ord, t))) % len(self.PATS)]}
        for _ in range(20000 if tier == "thorough" else 2500):
            s = "".join(rng.choice(ALPHA + ["\r\n", "a/", "//"]) for _ in range(rng.randint(4, 24)))
            yield {"s": s, "p": rng.choice(self.PATS)}

    def impl(self, case):
        s, p = case["s"], case["p"]
        return "|".join([
            enc(s.strip()), enc(s.lstrip()), enc(s.rstrip()),
            enc_list(s.splitlines()), enc_list(s.splitlines(True)),
            _norm_find(s.find(p)), enc_list(s.split(p)), enc(s.replace(p, "\n")), enc(s.replace(p, "XY")),
        ])

    def model_lines(self, case):
        s, p = enc(case["s"]), enc(case["p"])
        return ["py.strip\t" + s, "py.lstrip\t" + s, "py.rstrip\t" + s, "py.splitlines\t" + s, "py.splitlines_keep\t" + s,
                "py.find\t%s\t%s" % (p, s), "py.split\t%s\t%s" % (p, s), "py.replace\t%s\t%s\t%s" % (s, p, enc("\n")),
                "py.replace\t%s\t%s\t%s" % (s, p, enc("XY"))]

    def model_out(self, case, outs):
        return "|".join(outs)

    def nontrivial(self, case, impl_out):
        return impl_out

    def show(self, case):
        return {"s": case["s"], "pattern": case["p"]}


class DigitStream(Stream):
    """`int()` of every character `\\d` matches (the decimal digits of all scripts) and of four-digit years mixing scripts:
    Model.digitVal / Model.yearVal (used by the numeric year comparison of merge_copyright_lines) against CPython."""
    name = "pydigits"
    exhaustive = True
    rule = ("every code point matched by re's \\d (all decimal digits of Unicode): Model.digitVal against int(c); 300 four-digit "
            "strings mixing scripts: Model.yearVal against int(s); non-trivial = distinct value")

    def cases(self, tier, rng):
        import re
        digits = [chr(c) for c in range(0x110000) if not 0xD800 <= c < 0xE000 and re.match(r"\d", chr(c))]
        for i in range(0, len(digits), 50):
            yield {"d": "".join(digits[i:i + 50])}
        for _ in range(300):
            yield {"y": "".join(rng.choice(digits) if rng.random() < 0.5 else rng.choice("0123456789") for _ in range(4))}

    def impl(self, case):
        if "d" in case:
            return "".join(str(int(c)) for c in case["d"])
        return str(int(case["y"]))

    def model_lines(self, case):
        return ["py.digitval\t" + enc(case["d"])] if "d" in case else ["py.yearval\t" + enc(case["y"])]

    def nontrivial(self, case, impl_out):
        return impl_out


STREAMS = [CharClassStream(), StrOpsStream()]
DIGIT_STREAMS = [DigitStream()]
