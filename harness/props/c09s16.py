"""C09, one more region of the input space: existing headers whose tag values END LIKE THE LINE BEGINS.

A header that somebody wrote by hand (or an earlier version of the tool) names a contributor / a licence whose last characters are
the mirror image of what opens its comment line — `# SPDX-FileContributor: Tooling Team C#`, `! … Yahoo!` (free-form Fortran),
`c … Eric` (fixed-form Fortran), `; … Jane;`, `% … 100%`, `-- … Dash--`, ` * … Star*`, `dnl … Randlnd`, `REM … SUMMER`,
`c SPDX-License-Identifier: LicenseRef-basic` — glued to the name, doubled, the prefix unreversed, its first / last character only,
other capitalisation; a minority set off by a blank (the documented ASCII-art frame `|* MIT *|`, which the reader removes).
Every comment style of the live table (single-line prefix; middle of the multi-line form), then ONE real `reuse annotate` that
adds something unrelated (a contributor, a holder, a licence).  C09's other histories draw contributors from a fixed list of
ordinary names and write their foreign headers in a handful of styles.

Oracle (property text, generator ground truth; the file is read back with two line patterns of its own, not with the tool's
reader): after a run that ends with status 0 every contributor, licence and copyright notice that stood in the header before still
stands in the file afterwards, character for character (for a value that was written as `NAME <blank> MIRROR-OF-PREFIX`, the
documented frame, NAME must stand), and what was requested has been added; a run that reports failure leaves the file as it was.
Oracle only (the model runs alongside in the stream `history`).
"""
import json
import re

from core import Stream
import cli
import c20 as c20base
from c20s15 import style_table, tails_for, NAMES_BASE

ID_CHARS = re.compile(r"[A-Za-z0-9.-]+\Z")
SPDX_IDS = ["ISC", "0BSD", "MIT", "Zlib", "curl", "NTP", "Intel", "OpenSSL", "Sendmail", "Apache-2.0", "BSD-3-Clause", "GPL-2.0-or-later", "MIT-0",
            "CC0-1.0", "Unlicense", "X11", "Vim", "xpp", "W3C", "TCL", "PostgreSQL", "Libpng", "HPND", "NCSA", "EUPL-1.2", "Artistic-2.0", "AFL-3.0"]
REF_BASE = ["LicenseRef-Acme-In", "LicenseRef-basi", "LicenseRef-x", "LicenseRef-Team.C", "LicenseRef-3rd-party-1"]
REQUEST_CON = ["Alex Roe", "Mary Sue <mary@example.org>", "Ünal Öz"]
REQUEST_CPR = ["New Holder Ltd.", "Jane Doe"]
REQUEST_LIC = ["Apache-2.0", "CC0-1.0", "LicenseRef-other"]
NOTICE = "SPDX-FileCopyrightText: 2019 Erika Mustermann <erika@example.com>"


def wf_value(v):
    """a tag value as the specification has it: one line, no blanks around it, not ending in a comment terminator"""
    return bool(v) and v == v.strip() and not any(c in v for c in c20base.SPLITLINES_BREAKS) and c20base.end_suffix_free(v)


def framed(value, lead):
    """NAME, if `value` is NAME + blanks + mirror image of the line opening (the documented ASCII-art frame), else None"""
    rev = lead.strip()[::-1]
    if rev and value.endswith(rev):
        rest = value[:-len(rev)]
        if not rest or rest[-1].isspace():
            return rest.strip()
    return None


def contributors_for(lead, rng, k):
    out = []
    tails = tails_for(lead)
    for t in tails:
        for glue in ("", "", "", " "):
            v = rng.choice(NAMES_BASE) + glue + t
            if wf_value(v) and framed(v, lead) != "":
                out.append(v)
    rng.shuffle(out)
    if tails and wf_value(NAMES_BASE[0] + tails[0]):
        out.insert(0, rng.choice(NAMES_BASE) + tails[0])         # the plain case first: the mirror image glued to the name
    return list(dict.fromkeys(out))[:k]


def licences_for(lead, rng):
    """identifiers ending like the line begins (only where the mirror image is made of identifier characters), else ordinary ones"""
    out = []
    for t in tails_for(lead):
        if ID_CHARS.match(t):
            out += [i for i in SPDX_IDS if i.endswith(t)]
            out += [b + t for b in REF_BASE]
    out = [x for x in dict.fromkeys(out) if wf_value(x) and framed(x, lead) is None]
    rng.shuffle(out)
    return out[:2] if out else [rng.choice(["MIT", "GPL-2.0-or-later"])]


def build_header(cls, ml, lines):
    """the comment as the manual shows it for the style (hand-built from the style's markers)"""
    if not ml:
        return "".join((cls.SINGLE_LINE + cls.INDENT_AFTER_SINGLE + l).rstrip() + "\n" for l in lines)
    m = cls.MULTI_LINE
    body = "".join((cls.INDENT_BEFORE_MIDDLE + m.middle + cls.INDENT_AFTER_MIDDLE + l).rstrip() + "\n" for l in lines)
    return m.start + "\n" + body + cls.INDENT_BEFORE_END + m.end + "\n"


def tag_values(text, tag):
    """what stands behind `tag` on the lines of `text` (to the end of the line, blanks trimmed)"""
    return [m.group(1).strip() for m in re.finditer(re.escape(tag) + r"[ \t]+([^\r\n]*)", text)]


def stands(values, want):
    return any(v == want or (v.startswith(want) and not v[len(want):].strip(" \t*/-#>}%':)=")) for v in values)


class MirrorValueStream(Stream):
    name = "mirrorvalue"
    rule = ("projects of 6 files, each with a hand-written header (copyright notice, 1-3 `SPDX-FileContributor:` lines, 1-2 "
            "`SPDX-License-Identifier:` lines) in one comment style of the live table — single-line prefix, or the multi-line form — "
            "whose contributors / licence identifiers (SPDX ids and LicenseRef-) END IN THE MIRROR IMAGE of what opens their line "
            "(glued to the name; also doubled, unreversed, first / last character, other case; one in four set off by a blank = the "
            "documented frame); then ONE real `reuse annotate --style S [--multi-line|--single-line]` adding an unrelated "
            "contributor / holder / licence; oracle (own line patterns, not the tool's reader): after exit 0 every contributor / licence / "
            "notice of the old header still stands verbatim (NAME for a framed `NAME <blank> mirror`), the requested one was added; "
            "a failed run leaves the file untouched; non-trivial = distinct (style, multi-line, tails, kind of request)")

    def cases(self, tier, rng):
        from reuse.comment import NAME_STYLE_MAP
        files = []
        reps = 12 if tier == "thorough" else 3
        for name, single, multi in style_table():
            forms = []
            if single:
                forms.append((False, single))
            if multi and multi[1].strip():
                forms.append((True, multi[1]))
            for ml, lead in forms:
                for _ in range(reps):
                    cons = contributors_for(lead, rng, rng.randint(1, 3))
                    if not cons:
                        continue
                    req = rng.choice(["con", "con", "cpr", "lic", "all"])
                    files.append({"style": name, "ml": ml, "lead": lead, "cons": cons, "lics": licences_for(lead, rng), "req": req,
                                  "rcon": rng.choice(REQUEST_CON), "rcpr": rng.choice(REQUEST_CPR), "rlic": rng.choice(REQUEST_LIC),
                                  "form": rng.choice(["same", "same", "none"]),
                                  "body": rng.choice(["payload\n", "payload\nmore\n", ""])})
        del NAME_STYLE_MAP
        rng.shuffle(files)
        for i in range(0, len(files), 6):
            chunk = files[i:i + 6]
            for j, f in enumerate(chunk):
                f["name"] = "d%d/f%d.txt" % (j % 2, j)
            yield {"files": chunk}

    def before_text(self, f):
        from reuse.comment import NAME_STYLE_MAP
        lines = [NOTICE] + ["SPDX-FileContributor: " + c for c in f["cons"]] + [""] + ["SPDX-License-Identifier: " + l for l in f["lics"]]
        return build_header(NAME_STYLE_MAP[f["style"]], f["ml"], lines) + ("\n" + f["body"] if f["body"] else "")

    def argv(self, f):
        argv = ["annotate", "--style", f["style"]]
        if f["form"] == "same":
            from reuse.comment import NAME_STYLE_MAP
            cls = NAME_STYLE_MAP[f["style"]]
            if f["ml"]:
                argv.append("--multi-line")
            elif cls.SINGLE_LINE and cls.MULTI_LINE and cls.MULTI_LINE.start:
                argv.append("--single-line")
        elif f["ml"]:
            argv.append("--multi-line")          # a multi-line header is kept multi-line (the other form is C08's matter)
        if f["req"] in ("con", "all"):
            argv += ["--contributor", f["rcon"]]
        if f["req"] in ("cpr", "all"):
            argv += ["--copyright", f["rcpr"], "--year", "2024"]
        if f["req"] in ("lic", "all"):
            argv += ["--license", f["rlic"]]
        return argv + [f["name"]]

    def impl(self, case):
        tree = {f["name"]: self.before_text(f) for f in case["files"]}
        out = {"rc": [], "text": {}}
        with cli.scratch("rv-c09m-") as root:
            cli.write_tree(root, tree)
            for f in case["files"]:
                code, o, exc = cli.run_cli(self.argv(f), root)
                if exc is not None:
                    return "EXC:%s:%s:%s" % (f["name"], type(exc).__name__, str(exc)[:120])
                out["rc"].append([code, (o or "")[-200:] if code else ""])
            snap = cli.snapshot(root)
            out["text"] = {k: v[1].decode("utf-8", "replace") for k, v in snap.items() if v[0] == "file"}
        return json.dumps(out, sort_keys=True)

    def oracle(self, case, impl_out):
        if impl_out.startswith("EXC"):
            return "cli-crash: " + impl_out
        out = json.loads(impl_out)
        for f, (rc, tail) in zip(case["files"], out["rc"]):
            before = self.before_text(f)
            after = out["text"].get(f["name"])
            cmd = "reuse " + " ".join(self.argv(f))
            where = "%s (style %s%s, lines open with %r) after `%s`" % (f["name"], f["style"], ", multi-line" if f["ml"] else "", f["lead"], cmd)
            if after is None:
                return "lost-file: %s" % where
            if rc != 0:
                if after != before:
                    return "failed-run-changed-file: %s: exit status %s, yet the file changed" % (where, rc)
                continue                      # the property speaks of successful runs (counted apart in the distribution)
            cons, lics = tag_values(after, "SPDX-FileContributor:"), tag_values(after, "SPDX-License-Identifier:")
            for c in f["cons"]:
                fr = framed(c, f["lead"])
                want = c if fr is None else fr
                if not stands(cons, want):
                    return "lost-contributor: %s: the header named the contributor %r%s; afterwards the file names %r" % (
                        where, c, "" if fr is None else " (framed: %r)" % fr, cons)
            for l in f["lics"]:
                if not stands(lics, l):
                    return "lost-licence: %s: the header carried `SPDX-License-Identifier: %s`; afterwards the file carries %r" % (where, l, lics)
            if NOTICE not in after:
                return "lost-notice: %s: %r is gone; file:\n%s" % (where, NOTICE, after[:400])
            if f["req"] in ("con", "all") and not stands(cons, f["rcon"]):
                return "not-added: %s: contributor %r; the file names %r" % (where, f["rcon"], cons)
            if f["req"] in ("lic", "all") and not stands(lics, f["rlic"]):
                return "not-added: %s: licence %r; the file carries %r" % (where, f["rlic"], lics)
            if f["req"] in ("cpr", "all") and not re.search(r"2024 " + re.escape(f["rcpr"]), after):
                return "not-added: %s: holder %r (2024); file:\n%s" % (where, f["rcpr"], after[:400])
            if f["body"] and not after.endswith(f["body"]):
                return "body-changed: %s" % where
        return None

    def nontrivial(self, case, impl_out):
        if impl_out.startswith("EXC"):
            return None
        if any(rc for rc, _ in json.loads(impl_out)["rc"]):
            return None
        return tuple((f["style"], f["ml"], tuple(c.split(" ")[-1] for c in f["cons"]), tuple(f["lics"]), f["req"]) for f in case["files"])

    def show(self, case):
        return {"files": [{"name": f["name"], "before": self.before_text(f), "argv": self.argv(f)} for f in case["files"]]}


STREAMS = [MirrorValueStream()]
