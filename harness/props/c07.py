"""C07 — what annotate writes, the linter reads back."""
import json

from core import Property, Stream, enc, dec, enc_list, dec_list
import annotcorr
import annotgen as G


# --------------------------------------------------------------------------
# add_header_to_file vs the model, judged by an independent read-back oracle

class AnnotateReadbackStream(annotcorr.AnnotateStream):
    """The model/implementation comparison of annotcorr.AnnotateStream plus the property itself:
    whatever was written must read back (with the tool's own extraction, on the window lint reads)
    what was requested."""
    name = "annotate"

    def oracle(self, case, impl_out):
        if not impl_out.startswith("W:"):
            return None
        data = dec(impl_out[2:]).encode("utf-8")
        merged = case["f"][2] == "1"
        want = (set(case["cpr"]), {G.norm_lic(x) for x in case["lic"]},
                set(case["con"]) if case["tmpl"] in ("default", "adds-text", "commented") else set())
        got = G.lint_read_bytes(data)
        if got is None:
            k = G.obstacle(data, want, merged)
            return "readback-parse: written, but the linter cannot read the file (an expression does not parse)%s" % (" {shape=%s}" % k if k else "")
        m = G.missing(want, got, merged)
        if m:
            k = G.obstacle(data, want, merged)
            return "readback-%s: written, but %r is not read back (read: %r)%s" % (sorted(m)[0], m, sorted(map(sorted, got)), " {shape=%s}" % k if k else "")
        return None

    def classify(self, case, failure):
        return G.shape_of(failure)


# --------------------------------------------------------------------------
# end to end: real `reuse annotate`, then real `reuse lint --json`

def _opts(rng, full):
    """One point of the option space.  `full`: also the options that make annotate refuse."""
    o = {"prefix": rng.choice(G.PREFIXES), "year": rng.choice([None, None, "exclude", ["2019"], ["2015", "2021"], ["2021", "1999", "2005"]])}
    o["tmpl"] = rng.choice(["default"] * 5 + ["adds-text", "no-contributors"])
    if full:
        o["tmpl"] = rng.choice(["default"] * 4 + list(G.TEMPLATES))
        o["line"] = rng.choice([None, None, None, "single", "multi"])
        o["dot"] = rng.choice([None, None, None, None, "force", "fallback", "skip"])
        o["no_replace"] = rng.random() < 0.12
        o["merge"] = rng.random() < 0.12
        o["skip_existing"] = rng.random() < 0.08
    return o


class EndToEndStream(Stream):
    name = "e2e"
    rule = ("real `reuse annotate` (click CLI, in-process) on scratch projects, then real `reuse lint --json` (+ Project.reuse_info_of for "
            "contributors): (a) every entry of EXTENSION_COMMENT_STYLE_MAP and FILENAME_COMMENT_STYLE_MAP (file name chosen per entry, "
            "random pre-existing content with an own-style header half of the time) in batches, each batch under an option combination "
            "(10 prefixes, --year / --exclude-year, templates that render everything); (b) single files over the whole option space: "
            "forced --style (every value), --single-line / --multi-line, --force-dot-license / --fallback-dot-license / "
            "--skip-unrecognised, --no-replace, --merge-copyrights, --skip-existing, 11 templates incl. information-dropping and "
            "pre-commented ones, binary, uncommentable and unrecognised files, holders / expressions / contributors from a grammar "
            "(non-ASCII, punctuation, holders that are notices, holders ending in comment terminators), exotic content (ignore regions, "
            "unparseable expressions) at a low rate.  Oracle (property text): exit 0 => requested and previously declared information "
            "is read back and nothing else appears; otherwise nothing was written.  non-trivial = distinct (file type, options, outcome)")

    # ---- cases
    def cases(self, tier, rng):
        thorough = tier == "thorough"
        entries = G.table_entries()
        from reuse import comment
        shorthands = list(comment.NAME_STYLE_MAP)
        # (a) table sweep
        sweeps = 30 if thorough else 3
        for sweep in range(sweeps):
            order = list(entries)
            rng.shuffle(order)
            size = 28
            for i in range(0, len(order), size):
                o = _opts(rng, False) if sweep else {"tmpl": "default"}
                cpr, lic, con = G.rand_request(rng)
                files = []
                seen = set()
                for kind, key, style in order[i:i + size]:
                    name = G.name_for(kind, key, rng if sweep else None)
                    if name.lower() in seen:
                        continue
                    seen.add(name.lower())
                    body, planted = G.rand_body(rng, style)
                    files.append({"name": name, "body": body, "entry": [kind, key, style], "kind": "table"})
                yield dict(o, files=files, cpr=cpr, lic=lic, con=con)
        # (b) singles
        n = 2500 if thorough else 260
        for _ in range(n):
            o = _opts(rng, True)
            cpr, lic, con = G.rand_request(rng, tricky=0.15)
            r = rng.random()
            if r < 0.70:
                kind, key, style = rng.choice(entries)
                body, planted = G.rand_body(rng, style, exotic=0.06)
                f = {"name": G.name_for(kind, key, rng), "body": body, "entry": [kind, key, style], "kind": "table"}
            elif r < 0.85:
                body, planted = G.rand_body(rng, None, exotic=0.03)
                f = {"name": rng.choice(G.UNRECOGNISED), "body": body, "kind": "unrecognised"}
            else:
                kind, key, style = rng.choice(entries)
                f = {"name": G.name_for(kind, key), "hex": rng.choice(G.BINARY_BODIES).hex(), "entry": [kind, key, style], "kind": "binary"}
            if rng.random() < 0.10:
                f["sib"] = rng.choice(["", "SPDX-FileCopyrightText: 2001 Sibling Holder\n\nSPDX-License-Identifier: Zlib\n"])
            if rng.random() < 0.35:
                o["style"] = rng.choice(shorthands)
            yield dict(o, files=[f], cpr=cpr, lic=lic, con=con)
        # every --style value forced on a file of another type, both line modes
        for sh in (shorthands if thorough else rng.sample(shorthands, 9)):
            for line in (None, "single", "multi"):
                cpr, lic, con = G.rand_request(rng)
                body, planted = G.rand_body(rng, None)
                yield {"style": sh, "line": line, "tmpl": "default", "prefix": rng.choice(G.PREFIXES), "cpr": cpr, "lic": lic, "con": con,
                       "files": [{"name": "forced.txt", "body": body, "kind": "table"}]}
        # the information-dropping templates on a plain file, every one of them
        for tmpl in G.TEMPLATES:
            yield {"tmpl": tmpl, "cpr": ["Jane Doe", "ACME Inc."], "lic": ["MIT", "0BSD"], "con": ["Alice"],
                   "files": [{"name": "plain.py", "body": "print(1)\n", "kind": "table"}]}
            yield {"tmpl": tmpl, "cpr": ["Jane Doe"], "lic": ["MIT"], "con": [],
                   "files": [{"name": "old.c", "body": "/*\n * SPDX-FileCopyrightText: 2017 Prev Holder\n *\n * SPDX-License-Identifier: ISC\n */\n\nint x;\n", "kind": "table"}]}

    # ---- implementation
    def impl(self, case):
        rec = G.run_once(case)
        per = {}
        if rec["rc"] != 0 and len(case["files"]) > 1:
            for f in case["files"]:
                per[f["name"]] = G.run_once(dict(case, files=[f]))
        out = {"rc": rec["rc"], "exc": rec["exc"], "rec": rec, "per": per}
        return json.dumps(out, sort_keys=True)

    # ---- oracle
    def oracle(self, case, impl_out):
        if impl_out.startswith("EXC"):
            return "harness: " + impl_out
        out = json.loads(impl_out)
        if out["exc"]:
            return "traceback: annotate raised %s" % out["exc"]
        for f in case["files"]:
            if f["name"] in out["per"]:
                rec = out["per"][f["name"]]
                if rec["exc"]:
                    return "traceback: annotate raised %s" % rec["exc"]
            else:
                rec = out["rec"]
            why = G.judge_file(case, f, rec, rec["rc"])
            if why is not None:
                return "%s [file %s; replay alone: %s]" % (why, f["name"], json.dumps(dict({k: v for k, v in case.items() if k != "files"}, files=[f]), ensure_ascii=True))
        return None

    def classify(self, case, failure):
        return G.shape_of(failure)

    def nontrivial(self, case, impl_out):
        if impl_out.startswith("EXC"):
            return None
        out = json.loads(impl_out)
        f = case["files"][0]
        ent = tuple(f.get("entry", [f["kind"], f["name"], ""]))
        return (len(case["files"]), ent, case.get("tmpl"), case.get("style"), case.get("line"), case.get("dot"), case.get("prefix"), out["rc"],
                bool(out["rec"]["changed"]))

    def show(self, case):
        c = dict(case)
        if len(c["files"]) > 3:
            c["files"] = [f["name"] for f in c["files"]]
        return c


PROPERTY = Property(
    pid="C07",
    streams=[annotcorr.CreateCommentStream(), annotcorr.CommentAtStream(), AnnotateReadbackStream(), EndToEndStream()],
    assumptions=[
        "Jinja2 is outside the model: the template is an arbitrary function in the theorems; in the correspondence the model receives "
        "the text real Jinja rendered for the information the model computed",
        "license-expression is an oracle parameter (`parses`, `normLic`) of the model; expressions are compared as the parser renders them",
    ],
)
