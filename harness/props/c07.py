"""C07 — what annotate writes, the linter reads back."""
import json
import os

from core import Property, Stream, enc, dec, enc_list, dec_list
import annotcorr
import annotgen as G
import annot_e2e


# --------------------------------------------------------------------------
# add_header_to_file vs the model, judged by an independent read-back oracle

class AnnotateReadbackStream(annotcorr.AnnotateStream):
    """The model/implementation comparison of annotcorr.AnnotateStream plus the property itself:
    whatever was written must read back (with the tool's own extraction, on the window lint reads)
    what was requested."""
    name = "annotate"

    def oracle(self, case, impl_out):
        if not impl_out.startswith("W:"):
            return None
        data = dec(impl_out[2:]).encode("utf-8")
        merged = case["f"][2] == "1"
        want = (set(case["cpr"]), {G.norm_lic(x) for x in case["lic"]},
                set(case["con"]) if case["tmpl"] in ("default", "adds-text", "commented") else set())
        got = G.lint_read_bytes(data)
        if got is None:
            k = G.obstacle(data, want, merged)
            return "readback-parse: written, but the linter cannot read the file (an expression does not parse)%s" % (" {shape=%s}" % k if k else "")
        m = G.missing(want, got, merged)
        if m:
            k = G.obstacle(data, want, merged)
            return "readback-%s: written, but %r is not read back (read: %r)%s" % (sorted(m)[0], m, sorted(map(sorted, got)), " {shape=%s}" % k if k else "")
        return None

    def classify(self, case, failure):
        return G.shape_of(failure)


# --------------------------------------------------------------------------
# end to end: real `reuse annotate`, then real `reuse lint --json`

def _opts(rng, full):
    """One point of the option space.  `full`: also the options that make annotate refuse."""
    o = {"prefix": rng.choice(G.PREFIXES), "year": rng.choice([None, None, "exclude", ["2019"], ["2015", "2021"], ["2021", "1999", "2005"]])}
    o["tmpl"] = rng.choice(["default"] * 5 + ["adds-text", "no-contributors"])
    if full:
        o["tmpl"] = rng.choice(["default"] * 4 + list(G.TEMPLATES))
        o["line"] = rng.choice([None, None, None, "single", "multi"])
        o["dot"] = rng.choice([None, None, None, None, "force", "fallback", "skip"])
        o["no_replace"] = rng.random() < 0.12
        o["merge"] = rng.random() < 0.12
        o["skip_existing"] = rng.random() < 0.08
    return o


class EndToEndStream(Stream):
    name = "e2e"
    rule = ("real `reuse annotate` (click CLI, in-process) on scratch projects, then real `reuse lint --json` (+ Project.reuse_info_of for "
            "contributors): (a) every entry of EXTENSION_COMMENT_STYLE_MAP and FILENAME_COMMENT_STYLE_MAP (file name chosen per entry, "
            "random pre-existing content with an own-style header half of the time) in batches, each batch under an option combination "
            "(10 prefixes, --year / --exclude-year, templates that render everything); (b) single files over the whole option space: "
            "forced --style (every value), --single-line / --multi-line, --force-dot-license / --fallback-dot-license / "
            "--skip-unrecognised, --no-replace, --merge-copyrights, --skip-existing, 11 templates incl. information-dropping and "
            "pre-commented ones, binary, uncommentable and unrecognised files, holders / expressions / contributors from a grammar "
            "(non-ASCII, punctuation, holders that are notices, holders ending in comment terminators), exotic content (ignore regions, "
            "unparseable expressions) at a low rate.  Oracle (property text): exit 0 => requested and previously declared information "
            "is read back and nothing else appears; otherwise nothing was written.  non-trivial = distinct (file type, options, outcome)")

    # ---- cases
    def cases(self, tier, rng):
        thorough = tier == "thorough"
        entries = G.table_entries()
        from reuse import comment
        shorthands = list(comment.NAME_STYLE_MAP)
        # (a) table sweep
        sweeps = 24 if thorough else 4
        for sweep in range(sweeps):
            order = list(entries)
            rng.shuffle(order)
            size = 28
            for i in range(0, len(order), size):
                o = _opts(rng, False) if sweep else {"tmpl": "default"}
                cpr, lic, con = G.rand_request(rng)
                files = []
                seen = set()
                for kind, key, style in order[i:i + size]:
                    name = G.name_for(kind, key, rng if sweep else None)
                    if name.lower() in seen or (name.endswith(".license") and o.get("dot") == "force"):
                        # (a file that is itself called X.license, annotated with --force-dot-license, gets X.license.license: the
                        # sibling-of-a-sibling corner is outside the model's routes and outside the property's quantifier)
                        continue
                    seen.add(name.lower())
                    body, planted = G.rand_body(rng, style)
                    files.append({"name": name, "body": body, "entry": [kind, key, style], "kind": "table"})
                yield dict(o, files=files, cpr=cpr, lic=lic, con=con)
        # (b) singles
        n = 2500 if thorough else 420
        for _ in range(n):
            o = _opts(rng, True)
            cpr, lic, con = G.rand_request(rng, tricky=0.15)
            r = rng.random()
            if r < 0.70:
                kind, key, style = rng.choice(entries)
                body, planted = G.rand_body(rng, style, exotic=0.06)
                f = {"name": G.name_for(kind, key, rng), "body": body, "entry": [kind, key, style], "kind": "table"}
            elif r < 0.85:
                body, planted = G.rand_body(rng, None, exotic=0.03)
                f = {"name": rng.choice(G.UNRECOGNISED), "body": body, "kind": "unrecognised"}
            else:
                kind, key, style = rng.choice(entries)
                f = {"name": G.name_for(kind, key), "hex": rng.choice(G.BINARY_BODIES).hex(), "entry": [kind, key, style], "kind": "binary"}
            if rng.random() < 0.10:
                f["sib"] = rng.choice(["", "SPDX-FileCopyrightText: 2001 Sibling Holder\n\nSPDX-License-Identifier: Zlib\n"])
            if rng.random() < 0.35:
                o["style"] = rng.choice(shorthands)
            if f["name"].endswith(".license") and o.get("dot") == "force":
                o["dot"] = None     # see above
            yield dict(o, files=[f], cpr=cpr, lic=lic, con=con)
        # every --style value forced on a file of another type, both line modes
        for sh in (shorthands if thorough else rng.sample(shorthands, 9)):
            for line in (None, "single", "multi"):
                cpr, lic, con = G.rand_request(rng)
                body, planted = G.rand_body(rng, None)
                yield {"style": sh, "line": line, "tmpl": "default", "prefix": rng.choice(G.PREFIXES), "cpr": cpr, "lic": lic, "con": con,
                       "files": [{"name": "forced.txt", "body": body, "kind": "table"}]}
        # the information-dropping templates on a plain file, every one of them
        for tmpl in G.TEMPLATES:
            yield {"tmpl": tmpl, "cpr": ["Jane Doe", "ACME Inc."], "lic": ["MIT", "0BSD"], "con": ["Alice"],
                   "files": [{"name": "plain.py", "body": "print(1)\n", "kind": "table"}]}
            yield {"tmpl": tmpl, "cpr": ["Jane Doe"], "lic": ["MIT"], "con": [],
                   "files": [{"name": "old.c", "body": "/*\n * SPDX-FileCopyrightText: 2017 Prev Holder\n *\n * SPDX-License-Identifier: ISC\n */\n\nint x;\n", "kind": "table"}]}

    # ---- implementation
    def impl(self, case):
        rec = G.run_once(case)
        per = {}
        if rec["rc"] != 0 and len(case["files"]) > 1:
            for f in case["files"]:
                per[f["name"]] = G.run_once(dict(case, files=[f]))
        out = {"rc": rec["rc"], "exc": rec["exc"], "rec": rec, "per": per}
        return json.dumps(out, sort_keys=True)

    # ---- oracle
    def oracle(self, case, impl_out):
        if impl_out.startswith("EXC"):
            return "harness: " + impl_out
        out = json.loads(impl_out)
        if out["exc"]:
            return "traceback: annotate raised %s" % out["exc"]
        for f in case["files"]:
            if f["name"] in out["per"]:
                rec = out["per"][f["name"]]
                if rec["exc"]:
                    return "traceback: annotate raised %s" % rec["exc"]
            else:
                rec = out["rec"]
            why = G.judge_file(case, f, rec, rec["rc"])
            if why is not None:
                return "%s [file %s; replay alone: %s]" % (why, f["name"], json.dumps(dict({k: v for k, v in case.items() if k != "files"}, files=[f]), ensure_ascii=True))
        return None

    def classify(self, case, failure):
        return G.shape_of(failure)

    # ---- the model's routing (Model.route) against what the CLI did, for single files without a sibling
    def model_lines(self, case):
        if len(case["files"]) != 1 or case["files"][0].get("sib") is not None:
            return []
        binary = "1" if case["files"][0].get("kind") == "binary" else "0"
        flags = "".join("1" if x else "0" for x in (case.get("dot") == "force", case.get("dot") == "fallback", case.get("dot") == "skip",
                                                    case.get("line") == "single", case.get("line") == "multi")) + binary
        return ["route\t%s\t%s\t%s" % (case.get("style") or "-", flags, enc(case["files"][0]["name"]))]

    def agree(self, case, impl_out, model_out):
        if impl_out.startswith("EXC"):
            return False
        out = json.loads(impl_out)
        name = case["files"][0]["name"]
        kind = model_out.split(":")[0]
        if out["rec"]["binary"].get(name) != (case["files"][0].get("kind") == "binary"):
            return True          # binaryornot disagrees with the generator's label: the model was given the wrong oracle value
        if kind == "crash":
            return False
        rc, changed = out["rc"], out["rec"]["changed"]
        if rc == 2:
            return kind == "usage"
        if kind == "usage":
            return False
        if rc == 0 and changed == [name]:
            return kind == "file"
        if rc == 0 and changed == [name + ".license"]:
            return kind == "dot"
        return True

    def nontrivial(self, case, impl_out):
        if impl_out.startswith("EXC"):
            return None
        out = json.loads(impl_out)
        f = case["files"][0]
        ent = tuple(f.get("entry", [f["kind"], f["name"], ""]))
        return (len(case["files"]), ent, case.get("tmpl"), case.get("style"), case.get("line"), case.get("dot"), case.get("prefix"), out["rc"],
                bool(out["rec"]["changed"]))

    def show(self, case):
        c = dict(case)
        if len(c["files"]) > 3:
            c["files"] = [f["name"] for f in c["files"]]
        return c


class TreeStream(EndToEndStream):
    """`reuse annotate --recursive DIR ...`: the files are found by the tool's own walk instead of being named."""
    name = "e2etree"
    rule = ("real `reuse annotate --recursive` on scratch trees, then real `reuse lint --json`: 3-9 files in nested directories (names with "
            "blanks, non-ASCII, a directory called lib.py) mixing commentable files of random table entries (random content, own-style "
            "header half of the time), binary files and files of unrecognised types, each with or without an existing FILE.license "
            "(empty; copyright + licence; copyright only; licence only; contributors only; CRLF), path arguments = the project root, top "
            "directories, nested directories (also spelled ./d, d/, d/../d), now and then a file named directly next to them, under "
            "every .license option (none, --force-dot-license, --fallback-dot-license, --skip-unrecognised), 10 prefixes, years, complete "
            "templates, --no-replace / --merge-copyrights / --skip-existing at a low rate.  Oracle (property text, per file): exit 0 => "
            "for every file below a named directory that the linter covers, lint reads back requested U previously declared (through "
            "FILE.license where one exists); files outside the named directories are untouched; usage error => nothing is touched; a "
            "failing run is repeated per file.  A failing tree is shrunk to the one file.  non-trivial = distinct (file kind, sibling "
            "kind, option, outcome)")

    def cases(self, tier, rng):
        entries = G.table_entries()
        for _ in range(600 if tier == "thorough" else 90):
            yield G.tree_case(rng, entries, rng.randint(3, 9))

    @staticmethod
    def _alone(case, f):
        cover = [p for p in case["paths"] if G.under(f["name"], p)]
        return dict(case, files=[f], paths=cover[:1] or [f["name"]])

    def impl(self, case):
        rec = G.run_once(case)
        per = {}
        if rec["rc"] not in (0, 2) and not rec["exc"]:
            for f in case["files"]:
                if f.get("scope"):
                    per[f["name"]] = G.run_once(self._alone(case, f))
        return json.dumps({"rc": rec["rc"], "exc": rec["exc"], "rec": rec, "per": per}, sort_keys=True)

    def _judge(self, case, out):
        if out["exc"]:
            return None, "traceback: annotate raised %s" % out["exc"]
        whole = out["rec"]
        for f in case["files"]:
            name = f["name"]
            if not f.get("scope"):
                hit = [k for k in whole["changed"] if k in (name, name + ".license")]
                if hit:
                    return f, "wrote-out-of-scope: %r is neither named nor below a named directory, yet %r changed" % (name, hit)
                continue
            rec = out["per"].get(name, whole)
            if rec["exc"]:
                return f, "traceback: annotate raised %s" % rec["exc"]
            direct = any(os.path.normpath(p) == os.path.normpath(name) for p in case["paths"])
            if not direct and not rec["before"][name]["linted"] and not [k for k in rec["changed"] if k in (name, name + ".license")]:
                continue          # a file the linter does not cover is not part of the walk either
            why = G.judge_file(case, f, rec, rec["rc"])
            if why is not None:
                return f, why
        return None, None

    def oracle(self, case, impl_out):
        if impl_out.startswith("EXC"):
            return "harness: " + impl_out
        f, why = self._judge(case, json.loads(impl_out))
        if why is None:
            return None
        n = len(case["files"])
        if f is not None and n > 1:
            small = self._alone(case, dict(f))
            f2, why2 = self._judge(small, json.loads(self.impl(small)))
            if why2 is not None and why2.split(":")[0] == why.split(":")[0]:
                for k in list(case):
                    del case[k]
                case.update(small, shrunk_from_files=n)
                why = why2
        return "%s [file %s of a tree of %d file(s), paths %r]" % (why, f["name"] if f else "?", len(case["files"]), case["paths"])

    def model_lines(self, case):
        return []

    def nontrivial(self, case, impl_out):
        if impl_out.startswith("EXC"):
            return None
        out = json.loads(impl_out)
        sib = lambda f: "none" if f.get("sib") is None else ("empty" if f["sib"] == "" else "info")      # noqa: E731
        return tuple(sorted({(f["kind"], sib(f), bool(f.get("scope"))) for f in case["files"]})) + (case.get("dot"), out["rc"], bool(out["rec"]["changed"]))

    def show(self, case):
        return case


class FileTieStream(annotcorr.AnnotateStream):
    """Theorem-hypothesis tie for C07_file_partial: the driver evaluates the theorem's decidable hypotheses on every case;
    where they hold, the *implementation* must show the theorem's conclusion: extraction of the whole written file (real
    extract_reuse_info) yields everything requested and everything the replaced header block declared."""
    name = "filetie"
    rule = ("the cases of the annotate stream (other seed): the driver evaluates the hypotheses of C07_file_partial (LF line endings, no "
            "--merge-copyrights, no ignore region opens in the written text, tag values of the header block are found in the whole "
            "text) and its conclusion; where the hypotheses hold the real add_header_to_file must have written the same text and the "
            "real extract_reuse_info on the whole of it must yield the requested notices and expressions and those of the replaced "
            "block; non-trivial = hypotheses hold")

    def model_out(self, case, outs):
        from core import run_driver
        from reuse import _LICENSING
        bad = []
        for v in set(dec_list(outs[0]) + dec_list(outs[1])):
            try:
                _LICENSING.parse(v)
            except Exception:
                bad.append(v)
        bad = enc_list(sorted(bad))
        args = (case["s"], case["f"], enc_list(case["cpr"]), enc_list(case["con"]), enc_list(case["lic"]), bad, enc(self._text(case)))
        info = run_driver(["hdrinfo\t%s\t%s\t%s\t%s\t%s\t%s\t%s" % args])[0]
        if info == "none" or case["tmpl"] == "default":
            tm = "default"
        else:
            c, n, l = (dec_list(x) for x in info.split("|"))
            tm = "rendered:" + enc(annotcorr.render_with(case["tmpl"], c, n, l))
        line = "c07file\t%s\t%s\t%s\t%s\t%s\t%s\t%s\t%s" % (case["s"], case["f"], tm, enc_list(case["cpr"]), enc_list(case["con"]),
                                                              enc_list(case["lic"]), bad, enc(self._text(case)))
        return run_driver([line])[0]

    def agree(self, case, impl_out, model_out):
        if model_out == "-":
            return True
        h, c, k, f, d, p, l, w = model_out.split("|", 7)
        # C07_file: hypothesis K (closed header block) implies hypothesis H (tagsCompose) — proved; evaluated here as well
        if k == "K1" and h != "H1":
            return False
        if h != "H1" and f != "F1":
            return True        # the theorems say nothing here
        if impl_out != w:
            return False
        want_cpr = set(case["cpr"]) | set(dec_list(p[1:]))
        want_lic = {G.norm_lic(x) for x in case["lic"] + dec_list(l[1:])}
        key = json.dumps(case, sort_keys=True)
        if h == "H1":
            if c != "C1":
                return False
            from reuse.extract import extract_reuse_info
            try:
                info = extract_reuse_info(dec(impl_out[2:]))
            except Exception:
                info = None    # a raw value elsewhere in the file does not parse: the theorem speaks of raw values, lint drops the file
            if info is not None:
                self._hyp = getattr(self, "_hyp", set())
                self._hyp.add(key)
                if k == "K1":
                    self.closed = getattr(self, "closed", 0) + 1
                got_cpr, got_lic = set(info.copyright_lines), {str(x) for x in info.spdx_expressions}
                if not (want_cpr <= got_cpr and want_lic <= got_lic):
                    return False
        if f == "F1":
            # C07_file_window: what lint reads of the written file — its first 4096 bytes, decoded — declares everything
            if d != "D1":
                return False
            got = G.lint_read_bytes(dec(impl_out[2:]).encode("utf-8"))
            if got is not None:    # None: an expression in the window does not parse (hypothesis `hparse` of C07_lint_reads_back)
                self.windowed = getattr(self, "windowed", 0) + 1
                if not (want_cpr <= got[0] and want_lic <= got[1]):
                    return False
        return True

    def nontrivial(self, case, impl_out):
        return impl_out if json.dumps(case, sort_keys=True) in getattr(self, "_hyp", ()) else None


class AchievableTieStream(Stream):
    """Theorem-hypothesis tie for C07_default_achievable / C07_default_header: the driver evaluates `lineMode`,
    `styleReadable` and `wfRequest` on the case; where they hold the real `_create_new_header` (bundled default template) must
    return the very header the model returns, and the real `extract_reuse_info` must read back exactly the request —
    copyright lines, expressions and contributors."""
    name = "achievetie"
    exhaustive = True
    rule = ("every style of the table x {default, forced multi-line} x requests from the generators' holders / licences / "
            "contributors over the ten prefixes and three year forms, plus values chosen to fail one hypothesis each (a tail that "
            "begins a comment terminator, the mirrored frame of the line prefix, a contributor that is a notice, a foreign tag, "
            "REUSE-IgnoreStart, line-boundary characters, white space at either end, the empty value); the driver evaluates the "
            "hypotheses of C07_default_achievable; where they hold the real _create_new_header must return the same header as the "
            "model and the real extract_reuse_info must read back exactly the request; non-trivial = hypotheses hold")

    TRICKY = ["Bob \"the builder\"", "ends with */", "arrow -->", "Vitamin c", "Copyright Holder Inc.", "X SPDX-License-Identifier: MIT",
              "REUSE-IgnoreStart", "trailing\u00a0", "a\x0cb", " lead", "Q :)", "R ]", "S '", "T }", "U #}", "ok=#", "semi ;", "bang !",
              "percent %", "dash -", "tick '", "dnl", "REM", "star *", "(paren)", "x>", "/>", "::", "©", "Copyright", "2020 Foo",
              "SPDX-FileContributor: nested", "line\u2028sep", "x\x85y"]

    def cases(self, tier, rng):
        holders = G.HOLDERS + G.TRICKY_HOLDERS + self.TRICKY
        cons = G.CONTRIBUTORS + self.TRICKY
        prefixes = list(G.PREFIX_TEXT)
        n = 0
        for st in annotcorr.all_styles():
            for force in ("0", "1"):
                for i in range(len(holders)):
                    n += 1
                    p = prefixes[(i + n) % len(prefixes)]
                    y = [None, "2020", "2019 - 2021", "2001-2003"][(i + n) % 4]
                    cpr = [G.expected_notice(holders[i], p, y)]
                    if i % 5 == 0:
                        cpr.append(G.expected_notice(holders[(i + 7) % len(G.HOLDERS)], "spdx", "1999"))
                    lic = [G.norm_lic(G.LICENSES[(i + n) % len(G.LICENSES)])] + ([G.norm_lic(G.LICENSES[(i + 3) % len(G.LICENSES)])] if i % 2 else [])
                    con = [cons[(i * 3 + n) % len(cons)]] if i % 3 != 1 else []
                    if i % 11 == 0:
                        lic = []
                    if i % 13 == 0:
                        cpr = []
                    # a request is a set: no entry twice
                    cpr, lic, con = list(dict.fromkeys(cpr)), list(dict.fromkeys(lic)), list(dict.fromkeys(con))
                    yield {"s": st.__name__, "f": "0" + force + "000", "cpr": cpr, "lic": lic, "con": con}

    def impl(self, case):
        from reuse import ReuseInfo, _LICENSING
        from reuse.header import _create_new_header
        from reuse.extract import extract_reuse_info
        from reuse.exceptions import CommentCreateError, MissingReuseInfoError
        info = ReuseInfo(spdx_expressions={_LICENSING.parse(x) for x in case["lic"]}, copyright_lines=set(case["cpr"]), contributor_lines=set(case["con"]))
        try:
            hdr = _create_new_header(info, template=None, template_is_commented=False, style=annotcorr.style_by_name(case["s"]),
                                     force_multi=case["f"][1] == "1")
        except CommentCreateError:
            return "err:create"
        except MissingReuseInfoError:
            return "err:missing"
        try:
            back = extract_reuse_info(hdr)
            read = "%s|%s|%s" % (enc_list(sorted(back.copyright_lines)), enc_list(sorted(str(x) for x in back.spdx_expressions)),
                                 enc_list(sorted(back.contributor_lines)))
        except Exception as e:
            read = "unreadable:" + type(e).__name__
        return "ok:" + enc(hdr) + "#" + read

    def model_lines(self, case):
        return ["c07ach\t%s\t%s\t%s\t%s\t%s" % (case["s"], case["f"], enc_list(case["cpr"]), enc_list(case["con"]), enc_list(case["lic"]))]

    def oracle(self, case, impl_out):
        """The property's second sentence, on every case (whether or not the theorem's hypotheses hold): a header that
        `_create_new_header` hands out — which the command then writes and reports as success — reads back everything that was
        requested: notices, expressions and (the bundled template renders them) contributors."""
        if not impl_out.startswith("ok:"):
            return None
        read = impl_out.split("#", 1)[1]
        if read.startswith("unreadable:"):
            return "readback-parse: a header is handed out that the reader cannot parse (%s)" % read
        cpr, lic, con = (set(dec_list(x)) for x in read.split("|"))
        for kind, want, got in (("copyright", set(case["cpr"]), cpr), ("licence", set(case["lic"]), lic), ("contributor", set(case["con"]), con)):
            if not want <= got:
                return "readback-%s: style %s: a header is handed out from which the requested %r cannot be read back (read: %r)" % (
                    kind, case["s"], sorted(want - got), sorted(got))
        return None

    def agree(self, case, impl_out, model_out):
        h, why, res = model_out.split("|", 2)
        self.why = getattr(self, "why", {})
        self.why[why] = self.why.get(why, 0) + 1
        if h != "H1":
            return True        # the theorem says nothing here
        if not impl_out.startswith("ok:"):
            return False
        hdr, read = impl_out.split("#", 1)
        if hdr != res:
            return False       # C07_default_header: the header is the model's, line by line
        want = "%s|%s|%s" % (enc_list(sorted(set(case["cpr"]))), enc_list(sorted(set(case["lic"]))), enc_list(sorted(set(case["con"]))))
        if read != want:
            return False
        self._hyp = getattr(self, "_hyp", set())
        self._hyp.add(json.dumps(case, sort_keys=True))
        return True

    def nontrivial(self, case, impl_out):
        return (case["s"], case["f"], impl_out) if json.dumps(case, sort_keys=True) in getattr(self, "_hyp", ()) else None


class StyleOfStream(Stream):
    name = "styleof"
    exhaustive = True
    rule = ("get_comment_style on a name for every entry of the two live tables (as is, upper-cased, lower-cased, below a directory), on "
            "the `NAME.license` of each, and on names outside the tables (no extension, dot files, double extensions such as x.nim.cfg, "
            "trailing dot, Kelvin sign for k); model: Model.commentStyleName over the generated tables; non-trivial = distinct (name, style)")

    def cases(self, tier, rng):
        for kind, key, style in G.table_entries():
            n = G.name_for(kind, key)
            for v in (n, n.upper(), n.lower(), "dir.d/" + n, n + ".license", n + ".", n + ".bak", "x" + n):
                yield {"p": v}
        for n in G.UNRECOGNISED + ["", ".", "..", ".license", "a.license", ".py", "py", "x.nim.cfg", "x.cfg", "Ma\u212aefile", "ma\u212aefile", "x.\u212a",
                                   "x.PY", "a/b.c/d", "a.b/c", "README", "x.tar.gz", "Makefile.am", "makefile.AM", "x.İ", "é.py", "x.pÝ"]:
            yield {"p": n}

    def impl(self, case):
        from reuse.comment import get_comment_style
        st = get_comment_style(case["p"])
        return "none" if st is None else st.__name__

    def model_lines(self, case):
        return ["styleof\t" + enc(case["p"])]

    def nontrivial(self, case, impl_out):
        return (case["p"], impl_out) if impl_out != "none" else None


class NewHeaderStream(Stream):
    name = "newheader"
    exhaustive = True
    rule = ("_create_new_header for every style of the table x {default, forced multi-line} x the ten prefixes x {year, year range, no year} "
            "x 6 holders (non-ASCII, punctuation) x licences / contributors, and 11 templates (rendered by real Jinja, handed to the "
            "model as text); every style x every contributor whose tail is a comment terminator or line marker of some style of the "
            "live table (`Jane :)`, `The other 99 %`, `semi ;`), under templates that render contributors and one that does not; "
            "model: Model.createNewHeader; oracle: a returned header reads back — with extract_reuse_info — exactly "
            "the requested notices and expressions, and the requested contributors when the template renders them; non-trivial = distinct header")

    def cases(self, tier, rng):
        holders = ["Jane Doe", "José Álvarez <j@example.org>", "张三", "R&D, Ltd.", "Eric", "Foo {Bar}"]
        for st in annotcorr.all_styles():
            if st.__name__ == "UncommentableCommentStyle":
                continue
            for force in ("0", "1"):
                for i, p in enumerate(G.PREFIX_TEXT):
                    y = [None, "2020", "2019 - 2021"][i % 3]
                    h = holders[(i + len(st.__name__)) % len(holders)]
                    cpr = [G.expected_notice(h, p, y)]
                    if i % 4 == 0:
                        cpr.append(G.expected_notice(holders[(i + 1) % len(holders)], "spdx", "1999"))
                    lic = [G.LICENSES[i % len(G.LICENSES)]] + ([G.LICENSES[(i + 3) % len(G.LICENSES)]] if i % 2 else [])
                    con = [G.CONTRIBUTORS[i % len(G.CONTRIBUTORS)]] if i % 3 == 0 else []
                    yield {"s": st.__name__, "f": "0" + force + "000", "tmpl": "default", "cpr": cpr, "lic": [G.norm_lic(x) for x in lic], "con": con}
            for tmpl in annotcorr.TEMPLATES:
                if tmpl == "default":
                    continue
                yield {"s": st.__name__, "f": ("1" if tmpl in annotcorr.COMMENTED else "0") + "0000", "tmpl": tmpl,
                       "cpr": ["SPDX-FileCopyrightText: 2020 Jane Doe", "Copyright (C) 2019 José Álvarez"], "lic": ["MIT", "Apache-2.0 OR MIT"], "con": ["Alice"]}
            # contributors are names like holders: every name whose tail is a terminator or line marker of some style of the
            # table, under every style, alone and next to a plain one, with the templates that render contributors and one that does not
            for k, name in enumerate(G.tricky_names()):
                tmpl = ["default", "default", "adds-text", "commented", "no-contributors"][(k + len(st.__name__)) % 5]
                con = [name] + (["Alice"] if k % 2 else [])
                yield {"s": st.__name__, "f": ("1" if tmpl in annotcorr.COMMENTED else "0") + str(k % 2) + "000", "tmpl": tmpl,
                       "cpr": ["SPDX-FileCopyrightText: 2020 Jane Doe"] if k % 3 else [], "lic": ["MIT"] if k % 4 else [], "con": con}

    def impl(self, case):
        from reuse import ReuseInfo, _LICENSING
        from reuse.header import _create_new_header
        from reuse.exceptions import CommentCreateError, MissingReuseInfoError
        info = ReuseInfo(spdx_expressions={_LICENSING.parse(x) for x in case["lic"]}, copyright_lines=set(case["cpr"]), contributor_lines=set(case["con"]))
        try:
            return "ok:" + enc(_create_new_header(info, template=annotcorr.jinja_template(case["tmpl"]), template_is_commented=case["f"][0] == "1",
                                                  style=annotcorr.style_by_name(case["s"]), force_multi=case["f"][1] == "1"))
        except CommentCreateError:
            return "err:create"
        except MissingReuseInfoError:
            return "err:missing"
        except Exception as e:  # noqa
            return "err:traceback:" + type(e).__name__

    def model_lines(self, case):
        tm = "default" if case["tmpl"] == "default" else "rendered:" + enc(annotcorr.render_with(case["tmpl"], sorted(case["cpr"]), sorted(case["con"]), sorted(case["lic"])))
        # the `parses` oracle: which of the expressions a template spells out does the real parser reject?
        bad = []
        if case["tmpl"].startswith("literal-"):
            import re
            from reuse import _LICENSING
            for v in re.findall(r"SPDX-License-Identifier: (.*)", annotcorr.TEMPLATES[case["tmpl"]]):
                try:
                    _LICENSING.parse(v)
                except Exception:
                    bad.append(v)
        return ["newheader\t%s\t%s\t%s\t%s\t%s\t%s\t%s" % (case["s"], case["f"], tm, enc_list(case["cpr"]), enc_list(case["con"]), enc_list(case["lic"]), enc_list(bad))]

    def oracle(self, case, impl_out):
        if impl_out.startswith("err:traceback"):
            return "traceback: _create_new_header with template %s ended in %s instead of a header or a refusal" % (case["tmpl"], impl_out[14:])
        if not impl_out.startswith("ok:"):
            return None
        got = G.lint_read_bytes(dec(impl_out[3:]).encode("utf-8"))
        want = (set(case["cpr"]), set(case["lic"]), set())
        if got is None or got[0] != want[0] or got[1] != want[1]:
            return "readback-header: _create_new_header returned a header from which %r is read instead of %r" % (got, want)
        if case["tmpl"] in G.RENDERS_CONTRIBUTORS and not set(case["con"]) <= got[2]:
            return "readback-contributor: style %s, template %s: _create_new_header returned a header from which the requested %r cannot be read back (read: %r)" % (
                case["s"], case["tmpl"], sorted(set(case["con"]) - got[2]), sorted(got[2]))
        return None

    def nontrivial(self, case, impl_out):
        return (case["s"], impl_out) if impl_out.startswith("ok") else None


import c07s6      # noqa: E402  (needs the classes above)
import c07s11     # noqa: E402
import c07t2      # noqa: E402
import c07s14     # noqa: E402

PROPERTY = Property(
    pid="C07",
    streams=[annotcorr.CreateCommentStream(), annotcorr.CommentAtStream(), NewHeaderStream(), AchievableTieStream(), AnnotateReadbackStream(), FileTieStream(), StyleOfStream(),
             EndToEndStream(), TreeStream(), annot_e2e.AnnotateE2EStream()] + c07s6.STREAMS + c07s11.STREAMS + c07t2.STREAMS + c07s14.STREAMS,
    assumptions=[
        "Jinja2 is outside the model: the template is an arbitrary function in the theorems; in the correspondence the model receives "
        "the text real Jinja rendered for the information the model computed",
        "license-expression is an oracle parameter (`parses`, `normLic`) of the model; expressions are compared as the parser renders them",
        "stream annotate-e2e (shared with C11): the composed model Model/AnnotateE2E.lean — command-level state machine + text level + style "
        "tables + covered-files walk — against the real CLI, bytes of every changed file; there `normLic` is the real "
        "`str(_LICENSING.parse(x))` and the template is rendered by real Jinja for the lists the model asks for",
    ],
)
