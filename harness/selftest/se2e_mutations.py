"""Self-test of the streams `spdx-e2e` (C18) and `lintfile-e2e` (C13): apply each glue mutation to the (scratch!) repo worktree
REUSE_VERIF_REPO, run the project test-suite and the check, restore the worktree.  Never run against /repo.

usage: REUSE_VERIF_REPO=/dev/shm/w/repo-se2e /venv/bin/python harness/selftest/se2e_mutations.py [name…]"""
import subprocess, sys, os, re, json
REPO = os.environ.get("REUSE_VERIF_REPO", "/dev/shm/w/repo-se2e")
assert os.path.realpath(REPO) != "/repo"
V = os.path.dirname(os.path.dirname(os.path.dirname(os.path.abspath(__file__))))


def sh(cmd, cwd=None, env=None):
    return subprocess.run(cmd, shell=True, cwd=cwd, capture_output=True, text=True, env=env)


def restore():
    sh("git checkout -- .", REPO)


GEN = "    files = (\n        project.subset_files(subset_files)\n        if subset_files is not None\n        else project.all_files()\n    )"
MUTS = {
    # --- reuse spdx (C18)
    "spdx-walk-forgets-the-flags": ("C18", "src/reuse/report.py", GEN,
        GEN.replace("else project.all_files()", "else (project.all_files() if not do_checksum else __import__('reuse.covered_files').covered_files.iter_files(project.root, vcs_strategy=project.vcs_strategy))")),
    "spdx-skips-files-without-information": ("C18", "src/reuse/report.py", "        for report in reports:\n            out.write(\"\\n\")",
        "        for report in reports:\n            if not report.licenses_in_file and not report.copyright:\n                continue\n            out.write(\"\\n\")"),
    "spdx-filename-relative-to-cwd": ("C18", "src/reuse/report.py", "        relative = project.relative_from_root(path)\n        report = cls(f\"./{relative}\"",
        "        relative = project.relative_from_root(path)\n        report = cls(f\"./{__import__('os').path.relpath(path)}\""),
    "spdx-copyright-unsorted": ("C18", "src/reuse/report.py", "        report.copyright = \"\\n\".join(\n            sorted(", "        report.copyright = \"\\n\".join(\n            list("),
    "spdx-licenseref-used-only": ("C18", "src/reuse/report.py", "            if _LICENSEREF_PATTERN.match(lic):\n                out.write(\"\\n\")",
        "            if _LICENSEREF_PATTERN.match(lic) and lic in self.used_licenses:\n                out.write(\"\\n\")"),
    "spdx-checksum-of-the-sibling": ("C18", "src/reuse/report.py", "            report.chk_sum = _checksum(path)",
        "            report.chk_sum = _checksum(__import__('reuse._util')._util._determine_license_path(path))"),
    "spdx-licenseref-text-not-decoded-with-replacement": ("C18", "src/reuse/report.py", "                    encoding=\"utf-8\", errors=\"replace\"\n", "                    encoding=\"utf-8\", errors=\"ignore\"\n"),
    "spdx-licence-info-deduplicated": ("C18", "src/reuse/report.py", "            for lic in sorted(report.licenses_in_file):", "            for lic in sorted(set(report.licenses_in_file)):"),
    # --- reuse lint-file, formats (C13)
    "lintfile-relative-to-the-root": ("C13", "src/reuse/cli/lint_file.py", "    subset_files = {Path(file_) for file_ in files}",
        "    subset_files = {Path(file_) if Path(file_).is_absolute() else project.root / file_ for file_ in files}"),
    "lintfile-reports-inside-LICENSES": ("C13", "src/reuse/covered_files.py", "        for pattern in _IGNORE_DIR_PATTERNS:\n            if pattern.match(name):\n                return True",
        "        for pattern in _IGNORE_DIR_PATTERNS:\n            if pattern.match(name) and subset_files is None:\n                return True"),
    "lintfile-directory-means-its-files": ("C13", "src/reuse/covered_files.py", "        and path.resolve() not in subset_files\n",
        "        and not any(path.resolve() == f or path.resolve().is_relative_to(f) for f in subset_files)\n"),
    "lintfile-ignores-license-suffix-rule": ("C13", "src/reuse/covered_files.py", "            if pattern.match(name) and (\n                name != \"REUSE.toml\" or not include_reuse_tomls\n            ):",
        "            if pattern.match(name) and subset_files is None and (\n                name != \"REUSE.toml\" or not include_reuse_tomls\n            ):"),
    "lintfile-exit-ignores-read-errors": ("C13", "src/reuse/report.py", "                self.files_without_licenses,\n                self.read_errors,\n            )\n        )\n\n\nclass FileReport",
        "                self.files_without_licenses,\n            )\n        )\n\n\nclass FileReport"),
}
which = sys.argv[1:] or [k for k, v in MUTS.items() if v[2] is not None]
env = dict(os.environ, REUSE_VERIF_REPO=REPO)
assert sh("git status --porcelain", REPO).stdout.strip() == "", "repo worktree not clean"
for name in which:
    pid, path, old, new = MUTS[name]
    restore()
    p = os.path.join(REPO, path)
    s = open(p).read()
    if old is None or old not in s:
        print(name, "PATTERN NOT FOUND")
        continue
    open(p, "w").write(s.replace(old, new, 1))
    t = sh("PYTHONPATH=%s/src /venv/bin/python -m pytest -q -p no:cacheprovider -n 8 tests 2>&1 | tail -1" % REPO, REPO).stdout.strip()
    r = sh("./check %s --tier quick 2>&1 | grep 'VIOLATION\\|tier=' " % pid, V, env)
    viol = [l for l in r.stdout.splitlines() if l.startswith("VIOLATION")]
    print("== %s | %s | suite: %s | %d VIOLATION" % (name, pid, t, len(viol)))
    for v in viol[:4]:
        m = re.search(r"replay=(\S+)", v)
        try:
            d = json.load(open(os.path.join(V, m.group(1))))
            print("   %s: %s" % (d.get("stream", ""), (d.get("why") or str(d.get("no_longer_checks")))[:400]))
        except Exception as e:
            print("   ", e)
    if not viol:
        print("   ", r.stdout.strip()[-300:])
    sys.stdout.flush()
restore()
sh("rm -f replays/C18-* replays/C13-*", V)
