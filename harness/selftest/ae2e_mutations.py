"""Self-test of the `annotate-e2e` stream (C11 / C07): apply each glue mutation to the (scratch!) repo worktree REUSE_VERIF_REPO, run the
project test-suite and `./check C11 --tier quick`, restore the worktree.  Never run against /repo."""
import subprocess, sys, os, re, json
REPO = os.environ.get("REUSE_VERIF_REPO", "/dev/shm/w/repo-ae2e")
assert os.path.realpath(REPO) != "/repo"
V = os.path.dirname(os.path.dirname(os.path.dirname(os.path.abspath(__file__))))


def sh(cmd, cwd=None, env=None):
    return subprocess.run(cmd, shell=True, cwd=cwd, capture_output=True, text=True, env=env)


def restore():
    sh("git checkout -- .", REPO)


A = "src/reuse/_annotate.py"
C = "src/reuse/cli/annotate.py"
MUTS = {
    # the comment style is taken from FILE although FILE.license is written
    "style-from-original-path": (A, "    if comment_style is None:\n        comment_style = get_comment_style(path)\n",
                                 "    if comment_style is None:\n        comment_style = get_comment_style(str(path)[:-8] if str(path).endswith('.license') else path)\n"),
    # --skip-existing looks at FILE although FILE.license is what would be written
    "skip-existing-reads-original": (A, "    if skip_existing and contains_reuse_info(text):\n",
                                     "    probe = text\n    if str(path).endswith('.license') and Path(str(path)[:-8]).is_file():\n        try:\n            probe = Path(str(path)[:-8]).read_text(encoding='utf-8')\n        except (OSError, UnicodeDecodeError):\n            probe = ''\n    if skip_existing and contains_reuse_info(probe):\n"),
    # --exclude-year is forgotten when --merge-copyrights is given
    "exclude-year-lost-with-merge": (C, "    year = get_year(years, exclude_year)\n", "    year = get_year(years, exclude_year and not merge_copyrights)\n"),
    # the template is looked up, but .license files get the bundled one
    "template-not-for-dot-license": (A, "                template=template,\n                template_is_commented=template_is_commented,\n                style=comment_style,\n                force_multi=force_multi,\n                merge_copyrights=merge_copyrights,\n            )\n        else:",
                                     "                template=None if str(path).endswith('.license') else template,\n                template_is_commented=template_is_commented and not str(path).endswith('.license'),\n                style=comment_style,\n                force_multi=force_multi,\n                merge_copyrights=merge_copyrights,\n            )\n        else:"),
    # the sibling created for --fallback-dot-license is left behind when the header fails
    "fallback-sibling-left-behind": (A, "    if result and created_dot_license:\n", "    if False and result and created_dot_license:\n"),
    # --multi-line does not reach the header builder
    "multi-line-dropped": (C, "                force_multi=multi_line,\n", "                force_multi=False,\n"),
    # the copyright prefix is dropped when there is no year
    "prefix-lost-without-year": (C, "        make_copyright_line(item, year=year, copyright_prefix=copyright_prefix)\n",
                                 "        make_copyright_line(item, year=year, copyright_prefix=copyright_prefix if year else 'spdx')\n"),
    # a file of an uncommentable type gets the header written into it
    "uncommentable-written-in-place": (C, "            if binary or is_uncommentable(path) or force_dot_license:\n", "            if binary or force_dot_license:\n"),
    # several --year values: first and last instead of smallest and largest
    "year-range-first-last": (C, '                year = f"{min(years)} - {max(years)}"\n', '                year = f"{years[0]} - {years[-1]}"\n'),
    # a header is written through a symbolic link
    "symlink-followed": (C, "    return [path for path in license_paths if not path.is_symlink()]\n", "    return list(license_paths)\n"),
}
which = sys.argv[1:] or list(MUTS)
env = dict(os.environ, REUSE_VERIF_REPO=REPO)
assert sh("git status --porcelain", REPO).stdout.strip() == "", "repo worktree not clean"
for name in which:
    path, old, new = MUTS[name]
    restore()
    p = os.path.join(REPO, path)
    s = open(p).read()
    if old not in s:
        print(name, "PATTERN NOT FOUND")
        continue
    open(p, "w").write(s.replace(old, new, 1))
    t = sh("PYTHONPATH=%s/src /venv/bin/python -m pytest -q -p no:cacheprovider -n 8 tests 2>&1 | tail -1" % REPO, REPO).stdout.strip()
    r = sh("./check C11 --tier quick 2>&1 | grep 'VIOLATION\\|tier=' ", V, env)
    viol = [l for l in r.stdout.splitlines() if l.startswith("VIOLATION")]
    print("== %s | suite: %s | %d VIOLATION" % (name, t, len(viol)))
    for v in viol[:3]:
        m = re.search(r"replay=(\S+)", v)
        try:
            d = json.load(open(os.path.join(V, m.group(1))))
            print("   %s: %s" % (d.get("stream", ""), (d.get("why") or str(d.get("no_longer_checks")))[:400]))
            if d.get("case"):
                print("      argv: %s" % json.dumps(d["case"].get("opts", d["case"]), ensure_ascii=True)[:300])
        except Exception as e:
            print("   ", e)
    sys.stdout.flush()
restore()
sh("rm -f replays/C11-*", V)
