"""Self-test of the C07 / C09 checks: apply each mutation to the (scratch!) repo worktree REUSE_VERIF_REPO, run the project
test-suite and both checks, restore the worktree to "HEAD + the uncommitted fixes it had".  Never run against /repo."""
import subprocess, sys, os, re, json
REPO=os.environ.get("REUSE_VERIF_REPO", "/dev/shm/w/repo-c07c09"); V=os.path.dirname(os.path.dirname(os.path.dirname(os.path.abspath(__file__))))
FIXFILE="/dev/shm/selftest-c07c09-fixes.diff"; open(FIXFILE,"w").write(subprocess.run(["git","-C",REPO,"diff"],capture_output=True,text=True).stdout)
def sh(cmd, cwd=None, env=None):
    return subprocess.run(cmd, shell=True, cwd=cwd, capture_output=True, text=True, env=env)
def restore():
    sh("git checkout -- .", REPO); r=sh("git apply /dev/shm/selftest-c07c09-fixes.diff", REPO); assert r.returncode==0, r.stderr
MUTS = {
 "guard-and": ("src/reuse/header.py", "    if reuse_info.copyright_lines != new_reuse_info.copyright_lines or set(", "    if reuse_info.copyright_lines != new_reuse_info.copyright_lines and set("),
 "guard-removed": ("src/reuse/header.py", "    if reuse_info.copyright_lines != new_reuse_info.copyright_lines or set(", "    if False and set("),
 "guard-copyright-only": ("src/reuse/header.py", "    if reuse_info.copyright_lines != new_reuse_info.copyright_lines or set(\n        map(str, reuse_info.spdx_expressions)\n    ) != set(map(str, new_reuse_info.spdx_expressions)):", "    if reuse_info.copyright_lines != new_reuse_info.copyright_lines:"),
 "union-new-only": ("src/reuse/header.py", "        reuse_info = existing_spdx | reuse_info\n", "        reuse_info = reuse_info | ReuseInfo()\n"),
 "union-existing-only": ("src/reuse/header.py", "        reuse_info = existing_spdx | reuse_info\n", "        reuse_info = existing_spdx\n"),
 "merge-loses-existing": ("src/reuse/header.py", "            spdx_copyrights = merge_copyright_lines(\n                reuse_info.copyright_lines.union(existing_spdx.copyright_lines),\n            )", "            spdx_copyrights = merge_copyright_lines(\n                reuse_info.copyright_lines,\n            )"),
 "copy-drops-contributors": ("src/reuse/__init__.py", "        for key, value in self.__dict__.items():\n            new_kwargs[key] = kwargs.get(key, value)", "        for key, value in self.__dict__.items():\n            if key == \"contributor_lines\" and kwargs:\n                continue\n            new_kwargs[key] = kwargs.get(key, value)"),
 "union-skips-licences": ("src/reuse/__init__.py", "            if isinstance(attr_val, set) and (other_val := getattr(value, key)):", "            if isinstance(attr_val, set) and key != \"spdx_expressions\" and (other_val := getattr(value, key)):"),
 "skip-existing-inverted": ("src/reuse/_annotate.py", "    if skip_existing and contains_reuse_info(text):", "    if skip_existing and not contains_reuse_info(text):"),
 "uncommentable-in-file": ("src/reuse/cli/annotate.py", "            if binary or is_uncommentable(path) or force_dot_license:", "            if binary or force_dot_license:"),
 "force-dot-ignored": ("src/reuse/cli/annotate.py", "            if binary or is_uncommentable(path) or force_dot_license:", "            if binary or is_uncommentable(path):"),
 "lone-cr-unfixed": ("src/reuse/extract.py", '    return result.replace("\\r\\n", "\\n").replace("\\r", "\\n")', '    return result.replace("\\r\\n", "\\n")'),
 "multi-joined-by-space": ("src/reuse/comment.py", '        result.append(cls.INDENT_BEFORE_END + cls.MULTI_LINE.end)\n        return "\\n".join(result)', '        result.append(cls.INDENT_BEFORE_END + cls.MULTI_LINE.end)\n        return " ".join(result)'),
 "html-ext-wrong-style": ("src/reuse/comment.py", '    ".html": HtmlCommentStyle,', '    ".html": UncommentableCommentStyle,'),
 "replace-drops-after": ("src/reuse/header.py", "    if after.strip():\n        # Create space", "    if after.strip() and not has_existing_header:\n        # Create space"),
}
which = sys.argv[1:] or list(MUTS)
env=dict(os.environ, REUSE_VERIF_REPO=REPO)
for name in which:
    path, old, new = MUTS[name]
    restore()
    p=os.path.join(REPO,path); s=open(p).read()
    if old not in s:
        print(name, "PATTERN NOT FOUND"); continue
    open(p,"w").write(s.replace(old,new,1))
    t=sh("PYTHONPATH=%s/src /venv/bin/python -m pytest -q -p no:cacheprovider -n 8 tests 2>&1 | tail -1" % REPO, REPO).stdout.strip()
    res={}
    for pid in ("C07","C09"):
        r=sh("./check %s --tier quick 2>&1 | grep -v '^Could not parse' | grep 'VIOLATION\\|tier=' " % pid, V, env)
        viol=[l for l in r.stdout.splitlines() if l.startswith("VIOLATION")]
        why=""
        if viol:
            m=re.search(r"replay=(\S+)", viol[0])
            try:
                d=json.load(open(os.path.join(V,m.group(1)))); why=(d.get("stream","")+": "+d.get("why", str(d.get("no_longer_checks"))))[:230]
            except Exception as e: why=str(e)
        res[pid]=(len(viol), why)
    print("== %s | suite: %s" % (name, t))
    for pid,(n,why) in res.items(): print("   %s: %d VIOLATION  %s" % (pid, n, why))
    sys.stdout.flush()
restore()
sh("rm -f replays/C07-* replays/C09-*", V)
