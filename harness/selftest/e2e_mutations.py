"""Self-test of the C01 `e2e-model` stream: apply each glue mutation to the (scratch!) repo worktree REUSE_VERIF_REPO, run the
project test-suite and `./check C01 --tier quick`, restore the worktree.  Never run against /repo."""
import subprocess, sys, os, re, json
REPO = os.environ.get("REUSE_VERIF_REPO", "/dev/shm/w/repo-e2e")
assert os.path.realpath(REPO) != "/repo"
V = os.path.dirname(os.path.dirname(os.path.dirname(os.path.abspath(__file__))))


def sh(cmd, cwd=None, env=None):
    return subprocess.run(cmd, shell=True, cwd=cwd, capture_output=True, text=True, env=env)


def restore():
    sh("git checkout -- .", REPO)


MUTS = {
    "sibling-file-preferred": ("src/reuse/_util.py", "    if not license_path.exists():\n        license_path = Path(path)",
                               "    if not license_path.exists() or Path(path).exists():\n        license_path = Path(path)"),
    "empty-sibling-ignored": ("src/reuse/_util.py", "    if not license_path.exists():\n        license_path = Path(path)",
                              "    if not license_path.exists() or (license_path.is_file() and license_path.stat().st_size == 0):\n        license_path = Path(path)"),
    "override-still-reads-file": ("src/reuse/project.py", "        if PrecedenceType.OVERRIDE in global_results:\n            _LOGGER.info(",
                                  "        if PrecedenceType.OVERRIDE in global_results:\n            if not is_binary(str(path)):\n                file_result = reuse_info_of_file(path, original_path, self.root)\n            _LOGGER.info("),
    "licenses-not-recursive": ("src/reuse/project.py", '        directory = str(self.root / "LICENSES/**")', '        directory = str(self.root / "LICENSES/*")'),
    "licenses-hidden-included": ("src/reuse/project.py", "        for path_str in glob.iglob(directory, recursive=True):", "        for path_str in glob.iglob(directory, recursive=True, include_hidden=True):"),
    "nested-toml-relative-to-root": ("src/reuse/global_licensing.py", "            relpath = adjusted_path.relative_to(toml.directory)\n            item = toml.find_annotations_item(relpath)",
                                     "            relpath = adjusted_path.relative_to(self.source)\n            item = toml.find_annotations_item(relpath)"),
    "binary-test-on-original": ("src/reuse/project.py", "        elif is_binary(str(path)):", "        elif is_binary(str(original_path)):"),
    "tomls-deepest-first": ("src/reuse/global_licensing.py", "        found.sort(key=lambda toml: toml.directory.parts)", "        found.sort(key=lambda toml: toml.directory.parts, reverse=True)"),
    "toml-first-match-wins": ("src/reuse/global_licensing.py", "        for item in reversed(self.annotations):\n            if item.matches(path):", "        for item in self.annotations:\n            if item.matches(path):"),
    "empty-reuse-toml-loaded": ("src/reuse/covered_files.py", "            if path.stat().st_size == 0:", "            if path.stat().st_size == 0 and name != \"REUSE.toml\":"),
    "window-ignores-snippet": ("src/reuse/extract.py", "            if _contains_snippet(fp):", "            if False and _contains_snippet(fp):"),
    # symbolic links below LICENSES/
    "licenses-dangling-links-kept": ("src/reuse/project.py", "            if not Path(path).exists() or Path(path).is_dir():", "            if not os.path.lexists(path) or Path(path).is_dir():"),
    "licenses-inside-project-only": ("src/reuse/project.py", "            if not Path(path).exists() or Path(path).is_dir():\n                continue\n",
                                     "            if not Path(path).exists() or Path(path).is_dir():\n                continue\n"
                                     "            if not Path(os.path.realpath(path)).is_relative_to(os.path.realpath(self.root)):\n                continue\n"),
    "licenses-named-by-target": ("src/reuse/project.py", "            path = Path(path_str)\n            # For some reason", "            path = Path(os.path.realpath(path_str))\n            # For some reason"),
    "licenses-links-not-texts": ("src/reuse/project.py", "            if not Path(path).exists() or Path(path).is_dir():", "            if not Path(path).exists() or Path(path).is_dir() or Path(path).is_symlink():"),
    "unreadable-swallowed": ("src/reuse/project.py", "        elif is_binary(str(path)):", "        elif Path(path).is_dir() or is_binary(str(path)):"),
}
which = sys.argv[1:] or list(MUTS)
env = dict(os.environ, REUSE_VERIF_REPO=REPO)
assert sh("git status --porcelain", REPO).stdout.strip() == "", "repo worktree not clean"
for name in which:
    path, old, new = MUTS[name]
    restore()
    p = os.path.join(REPO, path)
    s = open(p).read()
    if old not in s:
        print(name, "PATTERN NOT FOUND")
        continue
    open(p, "w").write(s.replace(old, new, 1))
    t = sh("PYTHONPATH=%s/src /venv/bin/python -m pytest -q -p no:cacheprovider -n 8 tests 2>&1 | tail -1" % REPO, REPO).stdout.strip()
    r = sh("./check C01 --tier quick 2>&1 | grep 'VIOLATION\\|tier=' ", V, env)
    viol = [l for l in r.stdout.splitlines() if l.startswith("VIOLATION")]
    print("== %s | suite: %s | %d VIOLATION" % (name, t, len(viol)))
    for v in viol[:3]:
        m = re.search(r"replay=(\S+)", v)
        try:
            d = json.load(open(os.path.join(V, m.group(1))))
            print("   %s: %s" % (d.get("stream", ""), (d.get("why") or str(d.get("no_longer_checks")))[:300]))
        except Exception as e:
            print("   ", e)
    sys.stdout.flush()
restore()
sh("rm -f replays/C01-*", V)
