"""Sibling mutations used by strengthening agent s5 (docs/STRENGTHEN-s5.md): `python s5_mutations.py <name> <repo worktree>` edits the
worktree in place (undo with `git checkout -- .`); then run `REUSE_VERIF_REPO=<worktree> ./check <property> --tier quick`.
M1, M1b, M2, M2b -> C01; M3 -> C04; M4 -> C05; M5 -> C06; M6, M7, M7b -> C14."""
import sys, re
name, repo = sys.argv[1], sys.argv[2]
def sub(path, old, new, count=1):
    p = repo + "/src/reuse/" + path
    s = open(p, encoding="utf-8").read()
    assert s.count(old) >= 1, (path, old)
    s = s.replace(old, new, count)
    open(p, "w", encoding="utf-8").write(s)

if name == "M1":   # LicenseRef- with an empty tail is accepted
    sub("extract.py", '"LicenseRef-[a-zA-Z0-9-.]+$"', '"LicenseRef-[a-zA-Z0-9-.]*$"')
elif name == "M1b":   # colon allowed in a LicenseRef-
    sub("extract.py", '"LicenseRef-[a-zA-Z0-9-.]+$"', '"LicenseRef-[a-zA-Z0-9-.:]+$"')
elif name == "M2":  # a path that is the beginning of an ignored entry is pruned as well
    sub("vcs.py", '''        path = relative_from_root(path, self.root)
        return path in self._all_ignored_files

    def is_submodule(self, path: StrPath) -> bool:
        # The paths in .gitmodules''', '''        path = relative_from_root(path, self.root)
        if path in self._all_ignored_files:
            return True
        # Nothing to look for in something that only leads to ignored entries.
        return any(
            str(ignored).startswith(str(path))
            for ignored in self._all_ignored_files
            if str(ignored) not in ("", ".")
        )

    def is_submodule(self, path: StrPath) -> bool:
        # The paths in .gitmodules''')
elif name == "M2b":  # what sits next to an ignored entry under the same name plus an extension is ignored as well
    sub("vcs.py", """        path = relative_from_root(path, self.root)
        return path in self._all_ignored_files

    def is_submodule(self, path: StrPath) -> bool:
        # The paths in .gitmodules""", """        path = relative_from_root(path, self.root)
        return (
            path in self._all_ignored_files
            or path.with_suffix("") in self._all_ignored_files
        )

    def is_submodule(self, path: StrPath) -> bool:
        # The paths in .gitmodules""")
elif name == "M3":  # a copyright line already listed is not repeated for a second source
    sub("report.py", '''                for reuse_info in self.reuse_infos
                for line in reuse_info.copyright_lines
            ],''', '''                for index, reuse_info in enumerate(self.reuse_infos)
                for line in reuse_info.copyright_lines
                if not any(
                    line in earlier.copyright_lines
                    for earlier in self.reuse_infos[:index]
                )
            ],''')
elif name == "M4":  # relevance of a REUSE.toml decided by os.path.commonprefix (character-wise)
    sub("global_licensing.py", '''            if PurePath(path).is_relative_to(toml.directory):
                found.append(toml)''', '''            directory = toml.directory.as_posix()
            if directory == "." or os.path.commonprefix(
                [directory, PurePath(path).as_posix()]
            ) == directory:
                found.append(toml)''')
    sub("global_licensing.py", '''            relpath = adjusted_path.relative_to(toml.directory)
            item = toml.find_annotations_item(relpath)''', '''            relpath = PurePath(
                os.path.relpath(adjusted_path, toml.directory)
            )
            item = toml.find_annotations_item(relpath)''')
    sub("global_licensing.py", '''            relpath = (PurePath(self.source) / path).relative_to(toml.directory)''', '''            relpath = PurePath(
                os.path.relpath(PurePath(self.source) / path, toml.directory)
            )''')
    s = open(repo + "/src/reuse/global_licensing.py", encoding="utf-8").read()
    if "\nimport os\n" not in s:
        s = s.replace("\nimport logging\n", "\nimport logging\nimport os\n", 1)
        open(repo + "/src/reuse/global_licensing.py", "w", encoding="utf-8").write(s)
elif name == "M5":  # X-only / X-or-later used: the text of X will do
    sub("report.py", '''                    ) != identifier:
                        identifiers.add(plus_identifier)''', '''                    ) != identifier:
                        identifiers.add(plus_identifier)
                    for suffix in ("-only", "-or-later"):
                        if identifier.endswith(suffix):
                            identifiers.add(identifier[: -len(suffix)])''')
elif name == "M6":  # summary.used_licenses keeps one spelling per licence (X or X+), the one met first
    sub("report.py", """        self._used_licenses = {
            lic
            for file_report in self.file_reports
            for lic in file_report.licenses_in_file
        }
        return self._used_licenses""", """        spellings: dict[str, str] = {}
        for file_report in self.file_reports:
            for lic in file_report.licenses_in_file:
                spellings.setdefault(_strip_plus_from_identifier(lic), lic)
        self._used_licenses = set(spellings.values())
        return self._used_licenses""")
elif name == "M7":  # REUSE.toml files ordered by the string of their own path
    sub("global_licensing.py", "found.sort(key=lambda toml: toml.directory.parts)", "found.sort(key=lambda toml: str(toml.source))")
elif name == "M7b":  # ordered by the length of the directory string ("." counts one)
    sub("global_licensing.py", "found.sort(key=lambda toml: toml.directory.parts)", "found.sort(key=lambda toml: (len(str(toml.directory)), str(toml.directory)))")
else:
    raise SystemExit("unknown " + name)
