"""Entry point used when a `reuse` command is run in a child process under strace (C15):
the network is replaced by a stub before the real CLI starts.  Usage:
    python strace_entry.py <fetchable ids, comma separated> -- <reuse arguments...>
"""
import io
import sys
import urllib.request
from urllib.error import URLError


def install_stub(fetchable):
    class _Resp(io.BytesIO):
        def getcode(self):
            return 200

        def __enter__(self):
            return self

        def __exit__(self, *a):
            return False

    def fake_urlopen(url, *a, **k):
        name = str(url).rsplit("/", 1)[-1]
        if name.endswith(".txt") and name[:-4] in fetchable:
            return _Resp(("Licence text of %s\n" % name[:-4]).encode())
        raise URLError("stubbed network: %s not available" % name)

    urllib.request.urlopen = fake_urlopen


if __name__ == "__main__":
    sep = sys.argv.index("--")
    install_stub(set(x for x in sys.argv[1].split(",") if x))
    from reuse.cli.main import main

    sys.argv = ["reuse"] + sys.argv[sep + 1:]
    main()
