"""Write MANIFEST.json from the table below (kept next to the checks so it stays consistent)."""
import json
import os

ROOT = os.path.dirname(os.path.dirname(os.path.abspath(__file__)))

CLAIMED = {
    "C12": dict(
        text="Lean 4 theorem C12_filter_eq_spec: for every text the model of filter_ignore_block equals the two-state "
             "scanner that is the property's reading (plus block / unclosed / stray-end / offset-0 corollaries and the "
             "per-character mask theorem), markers taken from the generated table. The model is tied to the code by an "
             "exhaustive token-sequence differential through the compiled model driver and an independent scanner oracle.",
        note="Trusted: Lean kernel (axioms propext/Classical.choice/Quot.sound only), gen_tables.py, the correspondence "
             "harness, CPython str semantics mirrored by Py.findSub/take/drop. Tag recognition inside the kept text is "
             "exercised end-to-end by the extract stream against generator ground truth (regex engine modelled under C02).",
        technique="Lean 4 proof (fun_induction over the model, scanner refinement) + model/implementation differential",
        design="§4 C12",
    ),
}

CLAIMED["C05"] = dict(
    text="Lean 4 theorems C05_sound / C05_complete / C05_exact: for every glob (without a lone final backslash) and every "
         "path of any length, the model of AnnotationsItem.matches accepts the path iff it is in the declaratively "
         "specified language (sandwich Narrow <= impl <= Wide, and impl = Wide exactly); proved through a verified "
         "backtracking matcher (bt_sound/bt_complete) for the regex fragment the code emits. Tied to the code by an "
         "exhaustive glob x path differential (781x781 quick, 3906x3906 thorough) plus random items.",
    note="Trusted: Lean kernel, the correspondence harness, CPython re for the emitted fragment (mirrored by Py.Re.bt and "
         "compared exhaustively), the reading of the written language in Spec/Glob.lean ('**/' may match zero directories "
         "in the wide reading). A lone final backslash has no defined meaning and is excluded (wfGlob).",
    technique="Lean 4 proof (language equality via verified regex matcher) + exhaustive model/implementation differential",
    design="§4 C05",
)

CLAIMED["C17"] = dict(
    text="Lean 4 theorems: C17_glob_partial (for every plain dep5 glob and every path python-debian's matcher and the "
         "REUSE.toml matcher of the converted glob agree), C17_paragraph / C17_last_wins (any number of paragraphs: the "
         "last matching one wins on both sides with the same payload), C17_order / C17_refuse / C17_final (dep5 removed only "
         "after REUSE.toml exists; refusal without dep5). Tied to the code by an exhaustive dep5-glob x path differential "
         "through both real matchers and by generated dep5 files linted before and after the real conversion.",
    note="Partial: globs with an unescaped '?' or an asterisk run directly followed by '/' are excluded from the theorem "
         "(dep5Plain) — both are genuine, recorded differences (known_findings.json). Trusted: Lean kernel, harness, CPython re "
         "(mirrored by the verified matcher), python-debian's paragraph parser and tomlkit (exercised end to end, not modelled).",
    technique="Lean 4 proof (regex language equality of dep5 glob and converted REUSE.toml glob) + exhaustive differential",
    design="§4 C17",
)

CLAIMED["C19"] = dict(
    text="Lean 4 theorems about the model of `reuse download` on an abstract file system (file / directory / symbolic link) with "
         "the network as an oracle, for every identifier list, tree, invocation directory and outcome vector: C19_no_overwrite "
         "(no existing node is altered), C19_write_set (only LICENSES/<id>.txt for requested '+'-stripped identifiers or the "
         "--output path, plus its directory, all previously absent), C19_no_debris / C19_exit / C19_exit_on_failure (a failed "
         "transfer leaves nothing and gives exit 1; exit 0 iff everything was supplied), C19_batch (every identifier fares exactly "
         "as it would alone on the initial tree, at any position), C19_plus, C19_licenseref_offline (call log and extensional "
         "independence of the oracle), C19_text, C19_usage_first, C19_all_closes. Tied to the code by running the real CLI "
         "with urllib.request.urlopen stubbed by a generated outcome vector and comparing exit status, whole-tree snapshot "
         "and call log with the model; `--all` is followed by the real `lint --json`.",
    note="The model describes the repaired destination test (fixes/download-dangling-symlink.diff: a dangling symbolic link at "
         "the destination is refused instead of written through); on a tree without that repair the check reports the violation. "
         "Known finding: `download --all` inside LICENSES/ of a project without VCS does not close lint's gap. Trusted: Lean kernel, "
         "harness, lexical path resolution (no directories reached through symbolic links), click's option parsing mirrored by "
         "usageError, lint's missing-licence computation (input of the model; checked end to end by the real lint). The network "
         "oracle has two outcomes (text / URLError); exceptions urllib does not wrap are only probed by the oracle.",
    technique="Lean 4 proof (file-system state machine, induction over the identifier list, step simulation for batch "
              "independence) + stubbed-network CLI differential with whole-tree snapshots",
    design="§4 C19",
)

NOT_YET = {}


def main():
    props = [json.loads(l) for l in open(os.path.join(ROOT, "properties.jsonl"))]
    checks = []
    na = []
    for p in props:
        pid = p["id"]
        if pid in CLAIMED:
            c = CLAIMED[pid]
            checks.append({
                "property_id": pid,
                "quick_cmd": "./check %s --tier quick" % pid,
                "thorough_cmd": "./check %s --tier thorough" % pid,
                "evidence_file": "evidence/%s.json" % pid,
                "replay_cmd_template": "./check %s --replay {path}" % pid,
                "engine": "lean-proof+correspondence",
                "level_claimed": {"category": "proof", "text": c["text"], "design_ref": c["design"]},
                "level_note": c["note"],
                "technique": c["technique"],
            })
        else:
            na.append({"property_id": pid, "reason": NOT_YET.get(pid, "not claimed yet: model, theorems and correspondence for this property are still being built (see DESIGN.md §8 build order); nothing is asserted about it")})
    man = {
        "version": 1,
        "setup_cmd": "./setup.sh",
        "hooks": {
            "guard": "REUSE_TOOL_VERIF",
            "enable": "no hooks are needed: the harness calls /repo/src in-process (PYTHONPATH=/repo/src) and varies hidden parameters by monkey-patching inside its own process",
            "baseline_off_cmd": "cd /repo && /venv/bin/python -m pytest -ra -q -p no:cacheprovider --timeout=900 --continue-on-collection-errors",
            "source_commits": [],
            "add_only": True,
        },
        "engines": [{
            "name": "lean-proof+correspondence",
            "path": "lean/ harness/",
            "serves_properties": sorted(CLAIMED),
            "kind_free_text": "hand-written executable Lean 4 models + theorems (lake project, no Mathlib requirement), data tables regenerated from the live Python objects on every run, compiled model driver compared with the real code over a line protocol, independent property oracles for the failing-input search",
        }],
        "checks": checks,
        "not_applicable": na,
        "notes": "See DESIGN.md. Exit 0 = property held on everything explored and all proof obligations discharged; exit 1 + VIOLATION line otherwise; exit 2 = timeout/infrastructure.",
    }
    with open(os.path.join(ROOT, "MANIFEST.json"), "w") as fp:
        json.dump(man, fp, indent=1)
        fp.write("\n")


if __name__ == "__main__":
    main()
