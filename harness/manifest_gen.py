"""Write MANIFEST.json from the table below (kept next to the checks so it stays consistent)."""
import json
import os

ROOT = os.path.dirname(os.path.dirname(os.path.abspath(__file__)))

CLAIMED = {
    "C12": dict(
        text="Lean 4 theorem C12_filter_eq_spec: for every text the model of filter_ignore_block equals the two-state "
             "scanner that is the property's reading (plus block / unclosed / stray-end / offset-0 corollaries and the "
             "per-character mask theorem), markers taken from the generated table. The model is tied to the code by an "
             "exhaustive token-sequence differential through the compiled model driver and an independent scanner oracle.",
        note="Trusted: Lean kernel (axioms propext/Classical.choice/Quot.sound only), gen_tables.py, the correspondence "
             "harness, CPython str semantics mirrored by Py.findSub/take/drop. Tag recognition inside the kept text is "
             "exercised end-to-end by the extract stream against generator ground truth (regex engine modelled under C02).",
        technique="Lean 4 proof (fun_induction over the model, scanner refinement) + model/implementation differential",
        design="§4 C12",
    ),
}

CLAIMED["C05"] = dict(
    text="Lean 4 theorems C05_sound / C05_complete / C05_exact: for every glob (without a lone final backslash) and every "
         "path of any length, the model of AnnotationsItem.matches accepts the path iff it is in the declaratively "
         "specified language (sandwich Narrow <= impl <= Wide, and impl = Wide exactly); proved through a verified "
         "backtracking matcher (bt_sound/bt_complete) for the regex fragment the code emits. Tied to the code by an "
         "exhaustive glob x path differential (781x781 quick, 3906x3906 thorough) plus random items.",
    note="Trusted: Lean kernel, the correspondence harness, CPython re for the emitted fragment (mirrored by Py.Re.bt and "
         "compared exhaustively), the reading of the written language in Spec/Glob.lean ('**/' may match zero directories "
         "in the wide reading). A lone final backslash has no defined meaning and is excluded (wfGlob).",
    technique="Lean 4 proof (language equality via verified regex matcher) + exhaustive model/implementation differential",
    design="§4 C05",
)

CLAIMED["C17"] = dict(
    text="Lean 4 theorems: C17_glob_partial (for every plain dep5 glob and every path python-debian's matcher and the "
         "REUSE.toml matcher of the converted glob agree), C17_paragraph / C17_last_wins (any number of paragraphs: the "
         "last matching one wins on both sides with the same payload), C17_order / C17_refuse / C17_final (dep5 removed only "
         "after REUSE.toml exists; refusal without dep5). Tied to the code by an exhaustive dep5-glob x path differential "
         "through both real matchers and by generated dep5 files linted before and after the real conversion.",
    note="Partial: globs with an unescaped '?' or an asterisk run directly followed by '/' are excluded from the theorem "
         "(dep5Plain) — both are genuine, recorded differences (known_findings.json). Trusted: Lean kernel, harness, CPython re "
         "(mirrored by the verified matcher), python-debian's paragraph parser and tomlkit (exercised end to end, not modelled).",
    technique="Lean 4 proof (regex language equality of dep5 glob and converted REUSE.toml glob) + exhaustive differential",
    design="§4 C17",
)

CLAIMED["C16"] = dict(
    text="Lean 4 theorems about the model of ReuseTOML.from_dict / AnnotationsItem.from_dict with the attrs converters and validators, "
         "in which Python's own failures (iterating a non-iterable, .get on a non-mapping, hashing a list) are explicit crash outcomes: "
         "C16_toml_total / C16_toml_never_crash (a REUSE.toml document whose keys hold values of any type, shape and depth validates to a "
         "value or to a parse error carrying the file name, never to a crash), C16_toml_file / C16_exit / C16_exit_dep5 (unreadable, "
         "undecodable, syntactically broken or wrongly shaped configuration => usage error, exit 2, message names the file), "
         "C16_project_cases_partial / _total_partial / _end_partial / C16_loaded_all_valid_partial (any number of nested REUSE.toml files: "
         "the first broken one is named, a loaded project has no broken file), C16_conflict (dep5 + REUSE.toml => exit 2 naming both), "
         "C16_per_file / _any_position / C16_expr_error_lacks_info / C16_lint_end (lists of covered files of any length: an exception for "
         "one file is exactly one read error at any position, every other file keeps its own report, unparseable expression => lacking "
         "information, exit 1), C16_annotate_per_file / _end / _unreadable (undecodable or vanished path = failed file, others annotated, "
         "exit 1). Tied to the code by a shape-complete REUSE.toml enumeration (each key x each TOML type x nesting, both spellings) and "
         "random value trees through the real from_toml, and by whole projects through the real CLI for every sub-command.",
    note="Partial: project loading assumes the files in LICENSES/ resolve to distinct identifiers (duplicate => RuntimeError traceback, "
         "known finding with proved witness). tomlkit, python-debian, the UTF-8 codec and license-expression are oracles of the model "
         "(their outcome classes are enumerated inputs; a byte-level stream checks they raise nothing else). Permission-denied reads "
         "cannot be provoked as root: represented by vanishing files; BdbQuit/KeyboardInterrupt are outside the model. The theorems hold "
         "for the code with fixes/c16-config-shapes-and-annotate-read.diff applied; on the unrepaired tree the check reports the "
         "violations (witness theorems C16_witness_* show the crash outcomes on the unrepaired model).",
    technique="Lean 4 proof (totality of validation over a nested inductive of TOML values with explicit crash outcomes; list induction "
              "for the per-file loops) + exhaustive shape enumeration and end-to-end CLI differential",
    design="§4 C16",
)

NOT_YET = {}


def main():
    props = [json.loads(l) for l in open(os.path.join(ROOT, "properties.jsonl"))]
    checks = []
    na = []
    for p in props:
        pid = p["id"]
        if pid in CLAIMED:
            c = CLAIMED[pid]
            checks.append({
                "property_id": pid,
                "quick_cmd": "./check %s --tier quick" % pid,
                "thorough_cmd": "./check %s --tier thorough" % pid,
                "evidence_file": "evidence/%s.json" % pid,
                "replay_cmd_template": "./check %s --replay {path}" % pid,
                "engine": "lean-proof+correspondence",
                "level_claimed": {"category": "proof", "text": c["text"], "design_ref": c["design"]},
                "level_note": c["note"],
                "technique": c["technique"],
            })
        else:
            na.append({"property_id": pid, "reason": NOT_YET.get(pid, "not claimed yet: model, theorems and correspondence for this property are still being built (see DESIGN.md §8 build order); nothing is asserted about it")})
    man = {
        "version": 1,
        "setup_cmd": "./setup.sh",
        "hooks": {
            "guard": "REUSE_TOOL_VERIF",
            "enable": "no hooks are needed: the harness calls /repo/src in-process (PYTHONPATH=/repo/src) and varies hidden parameters by monkey-patching inside its own process",
            "baseline_off_cmd": "cd /repo && /venv/bin/python -m pytest -ra -q -p no:cacheprovider --timeout=900 --continue-on-collection-errors",
            "source_commits": [],
            "add_only": True,
        },
        "engines": [{
            "name": "lean-proof+correspondence",
            "path": "lean/ harness/",
            "serves_properties": sorted(CLAIMED),
            "kind_free_text": "hand-written executable Lean 4 models + theorems (lake project, no Mathlib requirement), data tables regenerated from the live Python objects on every run, compiled model driver compared with the real code over a line protocol, independent property oracles for the failing-input search",
        }],
        "checks": checks,
        "not_applicable": na,
        "notes": "See DESIGN.md. Exit 0 = property held on everything explored and all proof obligations discharged; exit 1 + VIOLATION line otherwise; exit 2 = timeout/infrastructure.",
    }
    with open(os.path.join(ROOT, "MANIFEST.json"), "w") as fp:
        json.dump(man, fp, indent=1)
        fp.write("\n")


if __name__ == "__main__":
    main()
