"""Write MANIFEST.json from the table below (kept next to the checks so it stays consistent)."""
import json
import os

ROOT = os.path.dirname(os.path.dirname(os.path.abspath(__file__)))

CLAIMED = {
    "C12": dict(
        text="Lean 4 theorem C12_filter_eq_spec: for every text the model of filter_ignore_block equals the two-state "
             "scanner that is the property's reading (plus block / unclosed / stray-end / offset-0 corollaries and the "
             "per-character mask theorem), markers taken from the generated table. The model is tied to the code by an "
             "exhaustive token-sequence differential through the compiled model driver and an independent scanner oracle.",
        note="Trusted: Lean kernel (axioms propext/Classical.choice/Quot.sound only), gen_tables.py, the correspondence "
             "harness, CPython str semantics mirrored by Py.findSub/take/drop. Tag recognition inside the kept text is "
             "exercised end-to-end by the extract stream against generator ground truth (regex engine modelled under C02).",
        technique="Lean 4 proof (fun_induction over the model, scanner refinement) + model/implementation differential",
        design="§4 C12",
    ),
}

CLAIMED["C05"] = dict(
    text="Lean 4 theorems C05_sound / C05_complete / C05_exact: for every glob (without a lone final backslash) and every "
         "path of any length, the model of AnnotationsItem.matches accepts the path iff it is in the declaratively "
         "specified language (sandwich Narrow <= impl <= Wide, and impl = Wide exactly); proved through a verified "
         "backtracking matcher (bt_sound/bt_complete) for the regex fragment the code emits. Tied to the code by an "
         "exhaustive glob x path differential (781x781 quick, 3906x3906 thorough) plus random items.",
    note="Trusted: Lean kernel, the correspondence harness, CPython re for the emitted fragment (mirrored by Py.Re.bt and "
         "compared exhaustively), the reading of the written language in Spec/Glob.lean ('**/' may match zero directories "
         "in the wide reading). A lone final backslash has no defined meaning and is excluded (wfGlob).",
    technique="Lean 4 proof (language equality via verified regex matcher) + exhaustive model/implementation differential",
    design="§4 C05",
)

CLAIMED["C17"] = dict(
    text="Lean 4 theorems: C17_glob_partial (for every plain dep5 glob and every path python-debian's matcher and the "
         "REUSE.toml matcher of the converted glob agree), C17_paragraph / C17_last_wins (any number of paragraphs: the "
         "last matching one wins on both sides with the same payload), C17_order / C17_refuse / C17_final (dep5 removed only "
         "after REUSE.toml exists; refusal without dep5). Tied to the code by an exhaustive dep5-glob x path differential "
         "through both real matchers and by generated dep5 files linted before and after the real conversion.",
    note="Partial: globs with an unescaped '?' or an asterisk run directly followed by '/' are excluded from the theorem "
         "(dep5Plain) — both are genuine, recorded differences (known_findings.json). Trusted: Lean kernel, harness, CPython re "
         "(mirrored by the verified matcher), python-debian's paragraph parser and tomlkit (exercised end to end, not modelled).",
    technique="Lean 4 proof (regex language equality of dep5 glob and converted REUSE.toml glob) + exhaustive differential",
    design="§4 C17",
)

CLAIMED["C06"] = dict(
    text="Lean 4 theorems C06_used, C06_missing_partial, C06_unused_partial, C06_bad_partial, C06_deprecated_partial, "
         "C06_without_extension_partial (+ C06_defined_partial: a report exists iff no two entries carry one identifier, C06_spdx_name_without_extension, C06_compound, C06_consistency_partial, C06_case_sensitive, "
         "table obligation C06_table): for every licence table, every list of covered files with any number of expressions and every "
         "list of LICENSES/ entries, each field of the model of Project._find_licenses + FileReport/ProjectReport.generate contains "
         "exactly the pairs / identifiers its set-algebra definition in the property text names ('+' tolerance on use, sub-directories, "
         ".license companions skipped, case-sensitive equality, every key of a compound expression counted). Tied to the code by real "
         "`reuse lint --json` runs on generated trees covering the class x use x provision product and defect-injected trees, model fed "
         "from the generator's records, judged by an independent Python statement of the definitions; the whole bundled SPDX list is a "
         "generated table (round-tripped through the driver).",
    note="Partial: LICENSES/ entries named by a listed identifier X.Y whose stem X is itself an identifier (OLDAP-2.0.1, OLDAP-2.2.1, "
         "OLDAP-2.2.2, Python-2.0.1) and the `LicenseRef-.ext` shape are excluded by the decidable hypothesis plainNames; the first is a "
         "known finding (read as X with extension .Y). `generate = some r` = no two entries with one identifier (the tool stops; C16). "
         "Readings chosen: a deprecated identifier is reported as deprecated when it is provided (used-but-unprovided ones are missing); "
         "the '+' tolerance applies to uses, not to file names (LICENSES/MIT+.txt is bad); an extension-less LicenseRef- is outside C06's "
         "text (C01 (c) covers it). The model is the code after three repairs (fixes/licenseref-*.diff). Trusted: Lean kernel, "
         "gen_tables.py, harness; license-expression, tag extraction, REUSE.toml/dep5 and the file walk are exercised end to end, not modelled.",
    technique="Lean 4 proof (loop invariant of _find_licenses, membership characterisation of every report field) + generated SPDX table + model/implementation differential on generated trees",
    design="§4 C06",
)

CLAIMED["C01"] = dict(
    text="Lean 4 theorems C01_verdict_partial (isCompliant of the generated report <-> clauses (a)-(d) as quantified statements over "
         "the abstract project, any number of files / expressions / LICENSES entries), C01_exit, C01_eight (compliant <-> all eight "
         "collections empty), C01_violation_exits_1_partial, C01_no_copyright / C01_no_licence / C01_read_errors and C01_clauses_partial "
         "(per-clause correspondence); the licence categories are exact by the C06 theorems on the same model. Tied to the code by real "
         "`reuse lint --json` + exit status on compliant-by-construction trees with 0-5 injected defects of 14 kinds and on the C06 cells.",
    note="Partial: same plainNames hypothesis and duplicate-identifier exclusion as C06 (known finding for OLDAP-2.0.1-like names). "
         "Clause (b) is read with the '+' tolerance of C06; clause (c) 'with a file extension' includes extension-less LicenseRef- entries "
         "(repaired: fixes/licenseref-without-extension.diff). Read errors are provoked with FIFOs (root sandbox). Extraction, precedence "
         "and the covered-file walk (C02-C04) are exercised end to end by the trees, not modelled here. Trusted: Lean kernel, gen_tables.py, harness.",
    technique="Lean 4 proof (verdict <-> specification clauses over a model of report aggregation) + by-construction trees with injected defects",
    design="§4 C01",
)

CLAIMED["C13"] = dict(
    text="Lean 4 theorems C13_exit (the four invocations share the verdict's exit status), C13_json / C13_plain / C13_lines (each format's "
         "(category, item) entries are exactly the report's collections, in its documented rendering), C13_formats_agree, "
         "C13_compliant_silent, C13_counters (files_total, files_with_copyright_info, files_with_licensing_info, compliant = sizes / "
         "emptiness of the JSON's own lists), C13_lint_file (lint-file's entries = lint's per-file entries restricted to the files among "
         "F, only the four per-file kinds, exit 1 iff any) and C13_lint_file_only_covered (names that are not covered files and "
         "repetitions contribute nothing) - for every report. Tied to the code by parsing the real outputs of `reuse lint "
         "--json/--plain/--lines/--quiet` and `reuse lint-file` (relative / absolute / ./ paths, other working directory with --root, "
         "directories, non-covered files) on generated trees.",
    note="Formatters are modelled up to wording, order and layout (the harness parsers recover the entries); translations are not "
         "exercised. Symlinks named in F are not explored (the tool resolves them to their target). The model is the code after "
         "fixes/lint-file-subset-special-files.diff (FIFO read errors leaked into lint-file). Trusted: Lean kernel, harness parsers, click's path handling.",
    technique="Lean 4 proof (formatters as functions of one report; restriction theorem for lint-file) + parsed-output differential",
    design="§4 C13",
)

NOT_YET = {}


def main():
    props = [json.loads(l) for l in open(os.path.join(ROOT, "properties.jsonl"))]
    checks = []
    na = []
    for p in props:
        pid = p["id"]
        if pid in CLAIMED:
            c = CLAIMED[pid]
            checks.append({
                "property_id": pid,
                "quick_cmd": "./check %s --tier quick" % pid,
                "thorough_cmd": "./check %s --tier thorough" % pid,
                "evidence_file": "evidence/%s.json" % pid,
                "replay_cmd_template": "./check %s --replay {path}" % pid,
                "engine": "lean-proof+correspondence",
                "level_claimed": {"category": "proof", "text": c["text"], "design_ref": c["design"]},
                "level_note": c["note"],
                "technique": c["technique"],
            })
        else:
            na.append({"property_id": pid, "reason": NOT_YET.get(pid, "not claimed yet: model, theorems and correspondence for this property are still being built (see DESIGN.md §8 build order); nothing is asserted about it")})
    man = {
        "version": 1,
        "setup_cmd": "./setup.sh",
        "hooks": {
            "guard": "REUSE_TOOL_VERIF",
            "enable": "no hooks are needed: the harness calls /repo/src in-process (PYTHONPATH=/repo/src) and varies hidden parameters by monkey-patching inside its own process",
            "baseline_off_cmd": "cd /repo && /venv/bin/python -m pytest -ra -q -p no:cacheprovider --timeout=900 --continue-on-collection-errors",
            "source_commits": [],
            "add_only": True,
        },
        "engines": [{
            "name": "lean-proof+correspondence",
            "path": "lean/ harness/",
            "serves_properties": sorted(CLAIMED),
            "kind_free_text": "hand-written executable Lean 4 models + theorems (lake project, no Mathlib requirement), data tables regenerated from the live Python objects on every run, compiled model driver compared with the real code over a line protocol, independent property oracles for the failing-input search",
        }],
        "checks": checks,
        "not_applicable": na,
        "notes": "See DESIGN.md. Exit 0 = property held on everything explored and all proof obligations discharged; exit 1 + VIOLATION line otherwise; exit 2 = timeout/infrastructure.",
    }
    with open(os.path.join(ROOT, "MANIFEST.json"), "w") as fp:
        json.dump(man, fp, indent=1)
        fp.write("\n")


if __name__ == "__main__":
    main()
