"""Write MANIFEST.json from the table below (kept next to the checks so it stays consistent)."""
import json
import os

ROOT = os.path.dirname(os.path.dirname(os.path.abspath(__file__)))

CLAIMED = {
    "C12": dict(
        text="Lean 4 theorem C12_filter_eq_spec: for every text the model of filter_ignore_block equals the two-state "
             "scanner that is the property's reading (plus block / unclosed / stray-end / offset-0 corollaries and the "
             "per-character mask theorem), markers taken from the generated table. The model is tied to the code by an "
             "exhaustive token-sequence differential through the compiled model driver and an independent scanner oracle.",
        note="Trusted: Lean kernel (axioms propext/Classical.choice/Quot.sound only), gen_tables.py, the correspondence "
             "harness, CPython str semantics mirrored by Py.findSub/take/drop. Tag recognition inside the kept text is "
             "exercised end-to-end by the extract stream against generator ground truth (regex engine modelled under C02).",
        technique="Lean 4 proof (fun_induction over the model, scanner refinement) + model/implementation differential",
        design="§4 C12",
    ),
}

CLAIMED["C05"] = dict(
    text="Lean 4 theorems C05_sound / C05_complete / C05_exact: for every glob (without a lone final backslash) and every "
         "path of any length, the model of AnnotationsItem.matches accepts the path iff it is in the declaratively "
         "specified language (sandwich Narrow <= impl <= Wide, and impl = Wide exactly); proved through a verified "
         "backtracking matcher (bt_sound/bt_complete) for the regex fragment the code emits. Tied to the code by an "
         "exhaustive glob x path differential (781x781 quick, 3906x3906 thorough) plus random items.",
    note="Trusted: Lean kernel, the correspondence harness, CPython re for the emitted fragment (mirrored by Py.Re.bt and "
         "compared exhaustively), the reading of the written language in Spec/Glob.lean ('**/' may match zero directories "
         "in the wide reading). A lone final backslash has no defined meaning and is excluded (wfGlob).",
    technique="Lean 4 proof (language equality via verified regex matcher) + exhaustive model/implementation differential",
    design="§4 C05",
)

CLAIMED["C17"] = dict(
    text="Lean 4 theorems: C17_glob_partial (for every plain dep5 glob and every path python-debian's matcher and the "
         "REUSE.toml matcher of the converted glob agree), C17_paragraph / C17_last_wins (any number of paragraphs: the "
         "last matching one wins on both sides with the same payload), C17_order / C17_refuse / C17_final (dep5 removed only "
         "after REUSE.toml exists; refusal without dep5). Tied to the code by an exhaustive dep5-glob x path differential "
         "through both real matchers and by generated dep5 files linted before and after the real conversion.",
    note="Partial: globs with an unescaped '?' or an asterisk run directly followed by '/' are excluded from the theorem "
         "(dep5Plain) — both are genuine, recorded differences (known_findings.json). Trusted: Lean kernel, harness, CPython re "
         "(mirrored by the verified matcher), python-debian's paragraph parser and tomlkit (exercised end to end, not modelled).",
    technique="Lean 4 proof (regex language equality of dep5 glob and converted REUSE.toml glob) + exhaustive differential",
    design="§4 C17",
)

CLAIMED["C04"] = dict(
    text="Lean 4 theorem C04_items: for every chain of REUSE.toml levels of any depth, every own information and every "
         "item, the model of NestedReuseTOML.reuse_info_of + Project.reuse_info_of (loop with break, reversed two-flag CLOSEST "
         "clean-up, assembly with its special case) attributes the item to a source iff the declarative specification does "
         "(override hides file and deeper levels, aggregate adds, closest supplies per attribute from the nearest provider); "
         "plus C04_last_wins / C04_no_match / C04_override_hides / C04_sibling. Tied to the code by real trees on disk "
         "through Project.reuse_info_of, enumerated completely at depth <=2 and sampled at depth 3-4, and dep5 projects.",
    note="Trusted: Lean kernel, harness; glob matching is a parameter (C05) and reading the own source is generator ground "
         "truth (C02). Source path and source kind of every reported item are checked by the correspondence, the "
         "model abstracts them to 'level n' / 'own source'.",
    technique="Lean 4 proof (model = membership specification, any chain depth) + exhaustive real-tree differential",
    design="§4 C04",
)

CLAIMED["C03"] = dict(
    text="Lean 4 theorems: C03_walk (for every directory tree of any depth and width, every VCS oracle and flag combination, "
         "the model of the pruned os.walk in iter_files/is_path_ignored yields exactly the recursively specified covered "
         "files), C03_pruned, C03_symlink, C03_empty_file, C03_subset. The name rules are the regular expressions of the "
         "source, translated to the verified regex fragment by gen_tables.py on every run. Tied to the code by an exhaustive "
         "name-rule differential, random trees on disk through the real iter_files / lint / spdx / annotate --recursive, and "
         "random Git repositories judged by `git check-ignore`.",
    note="Partial: Git is an oracle (check-ignore, .gitmodules), os.walk/stat are modelled by the tree type; the name "
         "theorems (C03_names_partial, C03_dir_names, C03_meson_names) are about the patterns regenerated from the source "
         "and hold for every name without a newline. Known findings: CAL-1.0/SHL-2.1 workaround names; ignored files inside wholly untracked "
         "directories. Names containing a newline are a documented boundary. Only Git is installed.",
    technique="Lean 4 proof (mutual structural induction over the tree) + generated regex tables + real-tree and real-Git differential",
    design="§4 C03",
)

CLAIMED["C11"] = dict(
    text="Lean 4 theorems over a state-machine model of `reuse annotate` on an abstract file system (path lists of any length, "
         "any position and any set of failing files, header builder / style table / binary detection universally quantified): "
         "C11_failed_unchanged (builder fails for p => p and p.license are exactly as before, none created), C11_each_alone and "
         "C11_others_processed (every other path ends as if p were not in the list), C11_exit (status 1 iff some path fails, else 0), "
         "C11_exit_range, C11_usage_first (usage error => status 2, tree untouched), C11_fails_iff_builder, C11_order_irrelevant "
         "(set iteration order is unobservable), C11_rest_of_tree. Tied to the code by generated real CLI invocations over 1-6 "
         "files with every anticipated failure reason, .license option and usage error in every position, whole-tree snapshots "
         "(type, bytes, mode, mtime), model fed from the generator's ground truth, and the property's clauses as oracle.",
    note="The model is the behaviour after fixes/annotate-no-empty-license.diff (a .license file created for a header that then "
         "fails is removed again). Trusted: Lean kernel, harness; the header builder (comment creation, Jinja, post-render check) is "
         "a parameter, which written paths it fails for is generator ground truth; hypotheses Separate (paths pairwise distinct and "
         "not each other's sibling; violated only by naming FILE and FILE.license together, exercised separately) and WfPath (no "
         "empty path / trailing slash). Licence-only-dropping templates belong to C07 and are not generated.",
    technique="Lean 4 proof (frame + locality + induction over the path list) + real-CLI snapshot differential with generator ground truth",
    design="§4 C11",
)

CLAIMED["C15"] = dict(
    text="Lean 4 frame theorems on an abstract file system: C15_frame (for every command, every path outside the documented write "
         "set - annotate: named files or, with --recursive, covered files below named directories, and their .license siblings; "
         "convert-dep5: REUSE.toml and .reuse/dep5; download: destinations and their parent; spdx -o: the output - is unchanged), "
         "C15_history (any command sequence), C15_annotate_no_link (a symbolic link is never a written path), C15_expand_recursive, "
         "C15_convert_shape (create REUSE.toml + remove dep5, or nothing), C15_download_only_adds / C15_download_new. Tied to the "
         "code by generated command lines of every sub-command, alone and in sequences of 2-4, on projects with outward symlinks, "
         "Git-ignored and tracked files, LICENSES/, .reuse/, a read-only file and an outside sentinel: metadata snapshots around every "
         "command, model history vs implementation, and (thorough) an strace write-syscall monitor.",
    note="Partial: lint, lint-file, spdx without -o, supported-licenses, --help, --version have no write operation in the model "
         "(C15_read_only is true by construction); for them, and for 'a write at p affects p only', the claim rests on the snapshot "
         "(sha1, mode, size, mtime_ns, link targets, .git index/HEAD/config digest) and the system-call monitor. The model is the "
         "behaviour after fixes/annotate-skip-symlinks.diff and fixes/git-status-no-index-refresh.diff. download is verified in depth "
         "under C19 (here: frame only, network stubbed). Paths through a symlinked directory and dangling sibling links are not generated.",
    technique="Lean 4 proof (frame condition per command, induction over histories) + snapshot/sentinel differential + strace monitor",
    design="§4 C15",
)

NOT_YET = {}


def main():
    props = [json.loads(l) for l in open(os.path.join(ROOT, "properties.jsonl"))]
    checks = []
    na = []
    for p in props:
        pid = p["id"]
        if pid in CLAIMED:
            c = CLAIMED[pid]
            checks.append({
                "property_id": pid,
                "quick_cmd": "./check %s --tier quick" % pid,
                "thorough_cmd": "./check %s --tier thorough" % pid,
                "evidence_file": "evidence/%s.json" % pid,
                "replay_cmd_template": "./check %s --replay {path}" % pid,
                "engine": "lean-proof+correspondence",
                "level_claimed": {"category": "proof", "text": c["text"], "design_ref": c["design"]},
                "level_note": c["note"],
                "technique": c["technique"],
            })
        else:
            na.append({"property_id": pid, "reason": NOT_YET.get(pid, "not claimed yet: model, theorems and correspondence for this property are still being built (see DESIGN.md §8 build order); nothing is asserted about it")})
    man = {
        "version": 1,
        "setup_cmd": "./setup.sh",
        "hooks": {
            "guard": "REUSE_TOOL_VERIF",
            "enable": "no hooks are needed: the harness calls /repo/src in-process (PYTHONPATH=/repo/src) and varies hidden parameters by monkey-patching inside its own process",
            "baseline_off_cmd": "cd /repo && /venv/bin/python -m pytest -ra -q -p no:cacheprovider --timeout=900 --continue-on-collection-errors",
            "source_commits": [],
            "add_only": True,
        },
        "engines": [{
            "name": "lean-proof+correspondence",
            "path": "lean/ harness/",
            "serves_properties": sorted(CLAIMED),
            "kind_free_text": "hand-written executable Lean 4 models + theorems (lake project, no Mathlib requirement), data tables regenerated from the live Python objects on every run, compiled model driver compared with the real code over a line protocol, independent property oracles for the failing-input search",
        }],
        "checks": checks,
        "not_applicable": na,
        "notes": "See DESIGN.md. Exit 0 = property held on everything explored and all proof obligations discharged; exit 1 + VIOLATION line otherwise; exit 2 = timeout/infrastructure.",
    }
    with open(os.path.join(ROOT, "MANIFEST.json"), "w") as fp:
        json.dump(man, fp, indent=1)
        fp.write("\n")


if __name__ == "__main__":
    main()
