"""Write MANIFEST.json from the table below (kept next to the checks so it stays consistent)."""
import json
import os

ROOT = os.path.dirname(os.path.dirname(os.path.abspath(__file__)))

CLAIMED = {
    "C12": dict(
        text="Lean 4 theorem C12_filter_eq_spec: for every text the model of filter_ignore_block equals the two-state "
             "scanner that is the property's reading (plus block / unclosed / stray-end / offset-0 corollaries and the "
             "per-character mask theorem), markers taken from the generated table. The model is tied to the code by an "
             "exhaustive token-sequence differential through the compiled model driver and an independent scanner oracle.",
        note="Trusted: Lean kernel (axioms propext/Classical.choice/Quot.sound only), gen_tables.py, the correspondence "
             "harness, CPython str semantics mirrored by Py.findSub/take/drop. Tag recognition inside the kept text is "
             "exercised end-to-end by the extract stream against generator ground truth (regex engine modelled under C02).",
        technique="Lean 4 proof (fun_induction over the model, scanner refinement) + model/implementation differential",
        design="§4 C12",
    ),
}

CLAIMED["C05"] = dict(
    text="Lean 4 theorems C05_sound / C05_complete / C05_exact: for every glob (without a lone final backslash) and every "
         "path of any length, the model of AnnotationsItem.matches accepts the path iff it is in the declaratively "
         "specified language (sandwich Narrow <= impl <= Wide, and impl = Wide exactly); proved through a verified "
         "backtracking matcher (bt_sound/bt_complete) for the regex fragment the code emits. Tied to the code by an "
         "exhaustive glob x path differential (781x781 quick, 3906x3906 thorough) plus random items.",
    note="Trusted: Lean kernel, the correspondence harness, CPython re for the emitted fragment (mirrored by Py.Re.bt and "
         "compared exhaustively), the reading of the written language in Spec/Glob.lean ('**/' may match zero directories "
         "in the wide reading). A lone final backslash has no defined meaning and is excluded (wfGlob).",
    technique="Lean 4 proof (language equality via verified regex matcher) + exhaustive model/implementation differential",
    design="§4 C05",
)

CLAIMED["C17"] = dict(
    text="Lean 4 theorems: C17_glob_partial (for every plain dep5 glob and every path python-debian's matcher and the "
         "REUSE.toml matcher of the converted glob agree), C17_paragraph / C17_last_wins (any number of paragraphs: the "
         "last matching one wins on both sides with the same payload), C17_order / C17_refuse / C17_final (dep5 removed only "
         "after REUSE.toml exists; refusal without dep5). Tied to the code by an exhaustive dep5-glob x path differential "
         "through both real matchers and by generated dep5 files linted before and after the real conversion.",
    note="Partial: globs with an unescaped '?' or an asterisk run directly followed by '/' are excluded from the theorem "
         "(dep5Plain) — both are genuine, recorded differences (known_findings.json). Trusted: Lean kernel, harness, CPython re "
         "(mirrored by the verified matcher), python-debian's paragraph parser and tomlkit (exercised end to end, not modelled).",
    technique="Lean 4 proof (regex language equality of dep5 glob and converted REUSE.toml glob) + exhaustive differential",
    design="§4 C17",
)

CLAIMED["C18"] = dict(
    text="Lean 4 theorems about the executable model of FileReport.generate / bill_of_materials / the spdx option check, for any "
         "number of file reports and licence entries: C18_sections + C18_file_names + C18_file_block (the File sections are a "
         "permutation of one block per report and no other FileName entry exists; each block carries the report's name, SPDXID, "
         "checksum, LicenseConcluded, one LicenseInfoInFile per key, the copyright lines or NONE), C18_generate, C18_describes + "
         "C18_describes_once (exactly one DESCRIBES relationship per SPDXID), C18_concat_injective + C18_ids_distinct (SPDXIDs pairwise "
         "distinct given an md5 injective on the project's finite {name ++ checksum}), C18_licenseref (exactly the LicenseRef- entries "
         "get a LicenseID block with their text), C18_wellformed + C18_lines_physical (under docOk the written lines are read back "
         "by the tag-value grammar Spec.readDoc as exactly the document's entries), C18_creator (usage error iff --add-license-concluded "
         "without creator), and C18_equiv_sound_complete / C18_concluded_valid: the truth-table checker BoolExpr.equiv is sound and "
         "complete for any number of symbols, so every LicenseConcluded the real tool emits is validated per instance (translation "
         "validation). Tied to the code by generated project trees run through the real `reuse spdx` with every option set: the real "
         "document must equal the model's document character for character (uuid/time stamp as parameters), the Lean reader must "
         "agree with an independent reader on the real documents, and an independent oracle checks the property clauses against "
         "`reuse lint --json`, hashlib.sha1 and a Python truth table.",
    note="Trusted / not verified: Lean kernel; the harness; hashlib's sha1 and md5 (parameters of the model; uniqueness is conditional on "
         "md5 injectivity on the project's inputs); license-expression / boolean.py (parse, simplify, render - not modelled, each "
         "answer validated by the proved checker and by an independent truth table; WITH pairs and ids with '+' are atoms); which files "
         "are covered and what lint attributes to them are inputs (C03/C04), cross-checked against generator ground truth. "
         "C18_wellformed carries the decidable side condition docOk (no line feed in names/creators/identifiers, no value mimicking "
         "<text>, no '</text>' inside a text); the excluded points are run on the real code and listed as two known findings "
         "(the tag-value format cannot represent them). Duplicate LicenseInfoInFile lines (same key in several expressions) are "
         "emitted by the tool and are read as a set.",
    technique="Lean 4 proof (document composer + verified tag-value round trip + certified boolean-equivalence checker) + "
              "end-to-end model/implementation differential + translation validation per LicenseConcluded",
    design="§4 C18",
)

NOT_YET = {}


def main():
    props = [json.loads(l) for l in open(os.path.join(ROOT, "properties.jsonl"))]
    checks = []
    na = []
    for p in props:
        pid = p["id"]
        if pid in CLAIMED:
            c = CLAIMED[pid]
            checks.append({
                "property_id": pid,
                "quick_cmd": "./check %s --tier quick" % pid,
                "thorough_cmd": "./check %s --tier thorough" % pid,
                "evidence_file": "evidence/%s.json" % pid,
                "replay_cmd_template": "./check %s --replay {path}" % pid,
                "engine": "lean-proof+correspondence",
                "level_claimed": {"category": "proof", "text": c["text"], "design_ref": c["design"]},
                "level_note": c["note"],
                "technique": c["technique"],
            })
        else:
            na.append({"property_id": pid, "reason": NOT_YET.get(pid, "not claimed yet: model, theorems and correspondence for this property are still being built (see DESIGN.md §8 build order); nothing is asserted about it")})
    man = {
        "version": 1,
        "setup_cmd": "./setup.sh",
        "hooks": {
            "guard": "REUSE_TOOL_VERIF",
            "enable": "no hooks are needed: the harness calls /repo/src in-process (PYTHONPATH=/repo/src) and varies hidden parameters by monkey-patching inside its own process",
            "baseline_off_cmd": "cd /repo && /venv/bin/python -m pytest -ra -q -p no:cacheprovider --timeout=900 --continue-on-collection-errors",
            "source_commits": [],
            "add_only": True,
        },
        "engines": [{
            "name": "lean-proof+correspondence",
            "path": "lean/ harness/",
            "serves_properties": sorted(CLAIMED),
            "kind_free_text": "hand-written executable Lean 4 models + theorems (lake project, no Mathlib requirement), data tables regenerated from the live Python objects on every run, compiled model driver compared with the real code over a line protocol, independent property oracles for the failing-input search",
        }],
        "checks": checks,
        "not_applicable": na,
        "notes": "See DESIGN.md. Exit 0 = property held on everything explored and all proof obligations discharged; exit 1 + VIOLATION line otherwise; exit 2 = timeout/infrastructure.",
    }
    with open(os.path.join(ROOT, "MANIFEST.json"), "w") as fp:
        json.dump(man, fp, indent=1)
        fp.write("\n")


if __name__ == "__main__":
    main()
