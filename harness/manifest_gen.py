"""Write MANIFEST.json from the table below (kept next to the checks so it stays consistent)."""
import json
import os

ROOT = os.path.dirname(os.path.dirname(os.path.abspath(__file__)))

def load_claims():
    """One JSON file per claimed property in harness/claims/ (text, note, technique, design)."""
    import glob
    out = {}
    for p in sorted(glob.glob(os.path.join(ROOT, "harness", "claims", "C*.json"))):
        out[os.path.splitext(os.path.basename(p))[0]] = json.load(open(p))
    return out


CLAIMED = load_claims()
NOT_YET = {}


def main():
    props = [json.loads(l) for l in open(os.path.join(ROOT, "properties.jsonl"))]
    checks = []
    na = []
    for p in props:
        pid = p["id"]
        if pid in CLAIMED:
            c = CLAIMED[pid]
            checks.append({
                "property_id": pid,
                "quick_cmd": "./check %s --tier quick" % pid,
                "thorough_cmd": "./check %s --tier thorough" % pid,
                "evidence_file": "evidence/%s.json" % pid,
                "replay_cmd_template": "./check %s --replay {path}" % pid,
                "engine": "lean-proof+correspondence",
                "level_claimed": {"category": "proof", "text": c["text"], "design_ref": c["design"]},
                "level_note": c["note"],
                "technique": c["technique"],
            })
        else:
            na.append({"property_id": pid, "reason": NOT_YET.get(pid, "not claimed yet: model, theorems and correspondence for this property are still being built (see DESIGN.md §8 build order); nothing is asserted about it")})
    man = {
        "version": 1,
        "setup_cmd": "./setup.sh",
        "hooks": {
            "guard": "REUSE_TOOL_VERIF",
            "enable": "no hooks are needed: the harness calls /repo/src in-process (PYTHONPATH=/repo/src) and varies hidden parameters by monkey-patching inside its own process",
            "baseline_off_cmd": "cd /repo && /venv/bin/python -m pytest -ra -q -p no:cacheprovider --timeout=900 --continue-on-collection-errors",
            "source_commits": [],
            "add_only": True,
        },
        "engines": [{
            "name": "lean-proof+correspondence",
            "path": "lean/ harness/",
            "serves_properties": sorted(CLAIMED),
            "kind_free_text": "hand-written executable Lean 4 models + theorems (lake project, no Mathlib requirement), data tables regenerated from the live Python objects on every run, compiled model driver compared with the real code over a line protocol, independent property oracles for the failing-input search",
        }],
        "checks": checks,
        "not_applicable": na,
        "notes": "See DESIGN.md. Exit 0 = property held on everything explored and all proof obligations discharged; exit 1 + VIOLATION line otherwise; exit 2 = timeout/infrastructure.",
    }
    with open(os.path.join(ROOT, "MANIFEST.json"), "w") as fp:
        json.dump(man, fp, indent=1)
        fp.write("\n")


if __name__ == "__main__":
    main()
