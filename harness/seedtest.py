"""Run the registered checks against the seeded property-breaking changes kept in seeded/<name>/.

    /venv/bin/python harness/seedtest.py [name ...] [--tier quick|thorough|both] [--also C02,C07]

For every seeded change: the pinned demo must pass on the unchanged tree and fail with the patch
(re-confirmed here), the patch is applied to /repo (`git apply`), the check(s) of the property it
breaks are run, and the patch is undone straight afterwards (`git apply -R`, then `git status`
must be clean).  The outcome goes to seeded/<name>/result.json and a summary table to
seeded/RESULTS.md.  Evidence files are saved before and restored after, so that committed
evidence always comes from the unchanged tree.
"""
import argparse
import glob
import json
import os
import shutil
import subprocess
import sys
import time

VERIF = os.path.dirname(os.path.dirname(os.path.abspath(__file__)))
REPO = "/repo"          # --scratch: a throw-away worktree of /repo instead (so that /repo stays usable by other runs)
PY = "/venv/bin/python"


def sh(cmd, **kw):
    return subprocess.run(cmd, capture_output=True, text=True, **kw)


def repo_clean():
    return sh(["git", "-C", REPO, "status", "--porcelain"]).stdout.strip() == ""


def run_demo(d, root):
    env = dict(os.environ, PYTHONPATH=os.path.join(root, "src"), PYTHONDONTWRITEBYTECODE="1")
    demo = os.path.join(d, "demo.py")
    if not os.path.exists(demo):
        return None
    r = sh([PY, demo, root], env=env, timeout=600)
    return r.returncode


BASELINE_FAIL = {
    "test_to_read_only_file_forbidden", "test_help_is_default", "test_lint_read_errors", "test_lint_lines_read_errors",
    "test_reuse_info_of_uncommentable_file", "test_read_error[False]", "test_read_error[True]",
}


def run_suite(root):
    """the project's own test-suite on the patched tree: only the root-related baseline failures are allowed"""
    env = dict(os.environ, PYTHONPATH=os.path.join(root, "src"), PYTHONDONTWRITEBYTECODE="1")
    r = sh([PY, "-m", "pytest", "-q", "-p", "no:cacheprovider", "-n", "12", "tests", "--doctest-modules",
            "src/reuse/__init__.py", "src/reuse/_util.py"], cwd=root, env=env, timeout=1800)
    failed = sorted(set(l.split("::")[-1].split(" ")[0] for l in r.stdout.splitlines() if l.startswith(("FAILED", "ERROR"))))
    extra = [f for f in failed if f not in BASELINE_FAIL]
    tail = [l for l in r.stdout.splitlines() if " passed" in l or " failed" in l][-1:]
    return {"extra_failures": extra, "summary": tail[0] if tail else r.stdout[-200:]}


def run_check(pid, tier):
    t0 = time.time()
    r = sh([os.path.join(VERIF, "check"), pid, "--tier", tier], cwd=VERIF, timeout=3600,
           env=dict(os.environ, REUSE_VERIF_REPO=REPO))
    out = r.stdout + r.stderr
    viol = [l for l in out.splitlines() if l.startswith("VIOLATION")]
    return {"tier": tier, "exit": r.returncode, "violations": viol, "wall_s": round(time.time() - t0, 1),
            "tail": out.splitlines()[-3:]}


def main():
    ap = argparse.ArgumentParser()
    ap.add_argument("names", nargs="*")
    ap.add_argument("--tier", default="both", choices=["quick", "thorough", "both"])
    ap.add_argument("--also", default="")
    ap.add_argument("--fallback-all", action="store_true",
                    help="when the property's own check misses the change, run the quick tier of every other registered check")
    ap.add_argument("--no-suite", action="store_true", help="skip re-running the project's test-suite on the patched tree")
    ap.add_argument("--scratch", action="store_true", help="apply the patches to a scratch worktree of /repo's HEAD instead of /repo itself")
    ap.add_argument("--fix", action="append", default=[], metavar="DIFF",
                    help="with --scratch: apply this pending repair (fixes/<slug>.diff, not yet committed in /repo) to the scratch worktree "
                         "first and commit it there, so that the seeded change is judged against HEAD + the repair")
    a = ap.parse_args()
    global REPO
    scratch = None
    if a.scratch:
        scratch = "/dev/shm/rv-seed-repo-%d" % os.getpid()
        r = sh(["git", "-C", "/repo", "worktree", "add", "-q", "--detach", scratch, "HEAD"])
        if r.returncode != 0:
            sys.exit("cannot create scratch worktree: " + r.stderr)
        REPO = scratch
        for fx in a.fix:
            r = sh(["git", "-C", scratch, "apply", os.path.abspath(fx)])
            if r.returncode != 0:
                sh(["git", "-C", "/repo", "worktree", "remove", "--force", scratch])
                sys.exit("cannot apply %s: %s" % (fx, r.stderr))
        if a.fix:
            sh(["git", "-C", scratch, "-c", "user.name=seedtest", "-c", "user.email=seedtest@localhost", "commit", "-qam",
                "pending repairs: " + ", ".join(os.path.basename(f) for f in a.fix)])
    elif a.fix:
        sys.exit("--fix needs --scratch")
    try:
        run(a)
    finally:
        if scratch:
            sh(["git", "-C", "/repo", "worktree", "remove", "--force", scratch])


def run(a):
    dirs = sorted(glob.glob(os.path.join(VERIF, "seeded", "*", "patch.diff")))
    dirs = [os.path.dirname(p) for p in dirs]
    if a.names:
        dirs = [d for d in dirs if os.path.basename(d) in a.names]
    if not repo_clean():
        sys.exit("refusing: /repo has uncommitted changes")
    rows = []
    for d in dirs:
        name = os.path.basename(d)
        meta = json.load(open(os.path.join(d, "meta.json")))
        pids = [meta["property"]] + [x for x in a.also.split(",") if x]
        res = {"name": name, "property": meta["property"], "repo_head": sh(["git", "-C", REPO, "rev-parse", "HEAD"]).stdout.strip(),
               "checks": []}
        saved = {}
        for pid in (pids if not a.fallback_all else [os.path.basename(x)[:-5] for x in glob.glob(os.path.join(VERIF, "evidence", "C*.json"))]):
            p = os.path.join(VERIF, "evidence", pid + ".json")
            if os.path.exists(p):
                saved[p] = open(p, "rb").read()
        res["demo_clean_exit"] = run_demo(d, REPO)
        ap_ = sh(["git", "-C", REPO, "apply", os.path.join(d, "patch.diff")])
        three_way = False
        if ap_.returncode != 0:
            # later fix: commits may have touched neighbouring lines: try a three-way merge of the patch
            ap3 = sh(["git", "-C", REPO, "apply", "--3way", os.path.join(d, "patch.diff")])
            unmerged = sh(["git", "-C", REPO, "diff", "--name-only", "--diff-filter=U"]).stdout.strip()
            if ap3.returncode == 0 and not unmerged:
                three_way = True
                sh(["git", "-C", REPO, "reset", "-q"])      # keep the change in the working tree only
                res["applied_with"] = "git apply --3way (context moved by later fix: commits)"
            else:
                sh(["git", "-C", REPO, "reset", "-q", "--hard"])
        if ap_.returncode != 0 and not three_way:
            res["error"] = "patch does not apply: " + ap_.stderr[-300:]
        else:
            try:
                res["demo_patched_exit"] = run_demo(d, REPO)
                if not a.no_suite:
                    res["suite_with_patch"] = run_suite(REPO)
                for pid in pids:
                    tiers = ["quick", "thorough"] if a.tier == "both" else [a.tier]
                    for tier in tiers:
                        c = run_check(pid, tier)
                        c["property"] = pid
                        res["checks"].append(c)
                        if c["violations"]:
                            # keep the replay the check wrote, next to the seeded change
                            for v in c["violations"][:1]:
                                rp = v.split("replay=")[1].split()[0]
                                src = os.path.join(VERIF, rp)
                                if os.path.exists(src):
                                    shutil.copy(src, os.path.join(d, "replay-%s-%s.json" % (pid, tier)))
                            break
                if a.fallback_all and not any(c["violations"] for c in res["checks"]):
                    man = json.load(open(os.path.join(VERIF, "MANIFEST.json")))
                    for other in [c["property_id"] for c in man["checks"] if c["property_id"] not in pids]:
                        c = run_check(other, "quick")
                        c["property"] = other
                        if c["violations"]:
                            res["checks"].append(c)
                            rp = c["violations"][0].split("replay=")[1].split()[0]
                            if os.path.exists(os.path.join(VERIF, rp)):
                                shutil.copy(os.path.join(VERIF, rp), os.path.join(d, "replay-%s-quick.json" % other))
            finally:
                if three_way:
                    sh(["git", "-C", REPO, "checkout", "--", "."])
                else:
                    sh(["git", "-C", REPO, "apply", "-R", os.path.join(d, "patch.diff")])
                if not repo_clean():
                    sh(["git", "-C", REPO, "checkout", "--", "."])
                    sh(["git", "-C", REPO, "clean", "-fdq", "src", "tests"])
        for p, b in saved.items():
            open(p, "wb").write(b)
        caught = [c for c in res["checks"] if c["violations"]]
        res["caught"] = bool(caught)
        res["caught_by"] = ["%s/%s" % (c["property"], c["tier"]) for c in caught]
        res["concrete_input"] = any("no-failing-input-found" not in v for c in caught for v in c["violations"])
        json.dump(res, open(os.path.join(d, "result.json"), "w"), indent=1)
        rows.append(res)
        print("%-28s %-4s demo clean=%s patched=%s caught=%s by=%s concrete=%s" % (
            name, res["property"], res.get("demo_clean_exit"), res.get("demo_patched_exit"), res["caught"],
            ",".join(res["caught_by"]), res["concrete_input"]), flush=True)
    # regenerate tables from the clean tree so that the Lean side is back in step
    sh([PY, os.path.join(VERIF, "harness", "gen_tables.py")], cwd=VERIF, env=dict(os.environ, PYTHONPATH="/repo/src"))
    # summary over everything on disk
    lines = ["# Seeded changes: which check catches which", "",
             "| seeded change | property | demo (clean / patched) | caught by | concrete failing input |", "|---|---|---|---|---|"]
    for p in sorted(glob.glob(os.path.join(VERIF, "seeded", "*", "result.json"))):
        r = json.load(open(p))
        lines.append("| %s | %s | %s / %s | %s | %s |" % (r["name"], r["property"], r.get("demo_clean_exit"), r.get("demo_patched_exit"),
                                                       ", ".join(r["caught_by"]) or "**missed**", "yes" if r["concrete_input"] else ("no" if r["caught"] else "-")))
    open(os.path.join(VERIF, "seeded", "RESULTS.md"), "w").write("\n".join(lines) + "\n")


if __name__ == "__main__":
    main()
