"""Helpers for end-to-end runs of the real CLI (in-process through click's CliRunner)."""
import contextlib
import warnings
import json
import os
import shutil
import tempfile

SCRATCH_BASE = "/dev/shm" if os.path.isdir("/dev/shm") else tempfile.gettempdir()


@contextlib.contextmanager
def scratch(prefix="rv-"):
    d = tempfile.mkdtemp(prefix=prefix, dir=SCRATCH_BASE)
    try:
        yield d
    finally:
        shutil.rmtree(d, ignore_errors=True)


@contextlib.contextmanager
def chdir(path):
    old = os.getcwd()
    os.chdir(path)
    try:
        yield
    finally:
        os.chdir(old)


def run_cli(args, cwd, env=None):
    """Returns (exit_code, stdout, traceback-exception-or-None)."""
    from click.testing import CliRunner
    from reuse.cli.main import main

    with chdir(cwd):
        try:
            try:
                runner = CliRunner(mix_stderr=False)
            except TypeError:
                runner = CliRunner()
            with warnings.catch_warnings():
                warnings.simplefilter("ignore")
                res = runner.invoke(main, list(args), env=env, catch_exceptions=True)
        except BaseException as e:  # noqa
            return 99, "", e
    exc = res.exception
    if isinstance(exc, SystemExit):
        exc = None
    return res.exit_code, res.output, exc


def write_tree(root, files):
    """files: {relative path: str | bytes}"""
    for rel, content in files.items():
        p = os.path.join(root, rel)
        os.makedirs(os.path.dirname(p) or root, exist_ok=True)
        mode = "wb" if isinstance(content, bytes) else "w"
        kw = {} if isinstance(content, bytes) else {"encoding": "utf-8", "newline": ""}
        with open(p, mode, **kw) as fp:
            fp.write(content)


def lint_json(cwd, extra=()):
    code, out, exc = run_cli(["lint", "--json", *extra], cwd)
    if exc is not None:
        return code, None, exc
    try:
        return code, json.loads(out[out.index("{"):] if "{" in out else out), None
    except Exception as e:
        return code, None, e


def snapshot(root):
    """path -> (kind, content/target) for everything under root."""
    snap = {}
    for dp, dn, fn in os.walk(root):
        for d in dn:
            p = os.path.join(dp, d)
            rel = os.path.relpath(p, root)
            snap[rel] = ("link", os.readlink(p)) if os.path.islink(p) else ("dir", "")
        for f in fn:
            p = os.path.join(dp, f)
            rel = os.path.relpath(p, root)
            if os.path.islink(p):
                snap[rel] = ("link", os.readlink(p))
            else:
                with open(p, "rb") as fp:
                    snap[rel] = ("file", fp.read())
    return snap


def run_bounded(fn, limit):
    """Run `fn()` (returning a str) in a forked child of this process and wait at most `limit` seconds for it.

    Returns the child's string, or "timeout:<limit>" after killing the child (and its process group) when it did not finish —
    so a command of the code under test that never terminates (a regular expression that backtracks for ever, an endless walk)
    becomes an observation instead of hanging the harness.  An exception escaping `fn` comes back as "EXC:<Class>:<text>",
    like core.run_stream would record it.  Side effects of `fn` on this process's memory are lost (it ran in the child);
    scratch trees made with `scratch()` inside `fn` are removed whether or not the child was killed."""
    import select
    import signal
    import sys
    import time

    global SCRATCH_BASE
    sys.stdout.flush()
    sys.stderr.flush()
    base = tempfile.mkdtemp(prefix="rv-bounded-", dir=SCRATCH_BASE)  # the child's scratch trees live here: removed even when it is killed
    r, w = os.pipe()
    pid = os.fork()
    if pid == 0:  # child
        status = 0
        try:
            os.close(r)
            os.setpgid(0, 0)
            SCRATCH_BASE = base
            tempfile.tempdir = base
            try:
                out = fn()
            except BaseException as e:  # noqa
                out = "EXC:%s:%s" % (type(e).__name__, str(e)[:120])
            data = out.encode("utf-8", "surrogatepass")
            while data:
                n = os.write(w, data)
                data = data[n:]
        except BaseException:  # noqa
            status = 3
        finally:
            os._exit(status)
    os.close(w)
    chunks, deadline, timed_out = [], time.time() + limit, False
    try:
        while True:
            left = deadline - time.time()
            if left <= 0:
                timed_out = True
                break
            ready, _, _ = select.select([r], [], [], left)
            if not ready:
                timed_out = True
                break
            b = os.read(r, 1 << 16)
            if not b:
                break
            chunks.append(b)
    finally:
        os.close(r)
        if timed_out:
            for target in (-pid, pid):
                try:
                    os.kill(target, signal.SIGKILL)
                except OSError:
                    pass
        try:
            os.waitpid(pid, 0)
        except OSError:
            pass
        shutil.rmtree(base, ignore_errors=True)
    if timed_out:
        return "timeout:%g" % limit
    return b"".join(chunks).decode("utf-8", "surrogatepass")


_WARM = False


def warm_up():
    """Run every sub-command once in this process over a tiny project, so that the modules, tables and caches they load lazily are
    in memory before `run_bounded` forks (otherwise every child would import them again)."""
    global _WARM
    if _WARM:
        return
    _WARM = True
    import urllib.request
    from urllib.error import URLError

    orig = urllib.request.urlopen

    def refuse(*a, **k):
        raise URLError("network disabled by the harness")

    hdr = "# SPDX-FileCopyrightText: 2020 Jane\n# SPDX-License-Identifier: MIT\n"
    urllib.request.urlopen = refuse
    try:
        with scratch("rv-warm-") as root:
            write_tree(root, {"a.py": hdr, "b.py": "x\n", "LICENSES/MIT.txt": "MIT\n", "c.bin": b"\x00\x01", "d.py": hdr.replace("MIT", "0BSD"),
                              ".reuse/dep5": "Format: https://www.debian.org/doc/packaging-manuals/copyright-format/1.0/\n\nFiles: c.bin\nCopyright: J\nLicense: MIT\n"})
            for args in (["lint"], ["lint", "--json"], ["lint", "--lines"], ["lint-file", "a.py"], ["spdx"], ["download", "--all"],
                         ["annotate", "-c", "J", "-l", "MIT", "b.py"], ["annotate", "-c", "J", "-l", "MIT", "-r", "."], ["convert-dep5"],
                         ["supported-licenses"]):
                run_cli(["--no-multiprocessing"] + args if args[0] not in ("annotate", "convert-dep5", "supported-licenses") else args, root)
    finally:
        urllib.request.urlopen = orig


def run_bounded_batch(fn, items, limit, max_timeouts=None):
    """[fn(item) for item in items], computed in forked children with `limit` seconds per item: like `run_bounded`, but one child
    works through many items (a fork per item costs more than most items do) and hands every result back as soon as it has it.
    When an item does not come back in time the child is killed, that item's result is "timeout:<limit>", and a new child
    carries on with the next item.  After `max_timeouts` kills (if given) the remaining items are not run: their result is
    "skipped"."""
    import select
    import signal
    import struct
    import sys
    import time

    global SCRATCH_BASE
    results = []
    kills = 0
    while len(results) < len(items):
        if max_timeouts is not None and kills >= max_timeouts:
            results.extend(["skipped"] * (len(items) - len(results)))
            break
        start = len(results)
        sys.stdout.flush()
        sys.stderr.flush()
        base = tempfile.mkdtemp(prefix="rv-bounded-", dir=SCRATCH_BASE)
        r, w = os.pipe()
        pid = os.fork()
        if pid == 0:  # child
            status = 0
            try:
                os.close(r)
                os.setpgid(0, 0)
                SCRATCH_BASE = base
                tempfile.tempdir = base
                for item in items[start:]:
                    try:
                        out = fn(item)
                    except BaseException as e:  # noqa
                        out = "EXC:%s:%s" % (type(e).__name__, str(e)[:120])
                    data = out.encode("utf-8", "surrogatepass")
                    data = struct.pack(">Q", len(data)) + data
                    while data:
                        n = os.write(w, data)
                        data = data[n:]
            except BaseException:  # noqa
                status = 3
            finally:
                os._exit(status)
        os.close(w)
        buf = b""
        hung = False
        try:
            deadline = time.time() + limit
            while len(results) < len(items):
                # a complete frame?
                if len(buf) >= 8:
                    n = struct.unpack(">Q", buf[:8])[0]
                    if len(buf) >= 8 + n:
                        results.append(buf[8:8 + n].decode("utf-8", "surrogatepass"))
                        buf = buf[8 + n:]
                        deadline = time.time() + limit
                        continue
                left = deadline - time.time()
                ready = select.select([r], [], [], max(left, 0))[0] if left > 0 else []
                if not ready:
                    hung = True
                    break
                b = os.read(r, 1 << 16)
                if not b:  # the child died without finishing its list (killed from outside, out of memory …)
                    if len(results) < len(items):
                        results.append("EXC:ChildDied:the child process ended without a result")
                    break
                buf += b
        finally:
            os.close(r)
            for target in (-pid, pid):
                try:
                    os.kill(target, signal.SIGKILL)
                except OSError:
                    pass
            try:
                os.waitpid(pid, 0)
            except OSError:
                pass
            shutil.rmtree(base, ignore_errors=True)
        if hung:
            results.append("timeout:%g" % limit)
            kills += 1
    return results
