"""Helpers for end-to-end runs of the real CLI (in-process through click's CliRunner)."""
import contextlib
import warnings
import json
import os
import shutil
import tempfile

SCRATCH_BASE = "/dev/shm" if os.path.isdir("/dev/shm") else tempfile.gettempdir()


@contextlib.contextmanager
def scratch(prefix="rv-"):
    d = tempfile.mkdtemp(prefix=prefix, dir=SCRATCH_BASE)
    try:
        yield d
    finally:
        shutil.rmtree(d, ignore_errors=True)


@contextlib.contextmanager
def chdir(path):
    old = os.getcwd()
    os.chdir(path)
    try:
        yield
    finally:
        os.chdir(old)


def run_cli(args, cwd, env=None):
    """Returns (exit_code, stdout, traceback-exception-or-None)."""
    from click.testing import CliRunner
    from reuse.cli.main import main

    with chdir(cwd):
        try:
            try:
                runner = CliRunner(mix_stderr=False)
            except TypeError:
                runner = CliRunner()
            with warnings.catch_warnings():
                warnings.simplefilter("ignore")
                res = runner.invoke(main, list(args), env=env, catch_exceptions=True)
        except BaseException as e:  # noqa
            return 99, "", e
    exc = res.exception
    if isinstance(exc, SystemExit):
        exc = None
    return res.exit_code, res.output, exc


def write_tree(root, files):
    """files: {relative path: str | bytes}"""
    for rel, content in files.items():
        p = os.path.join(root, rel)
        os.makedirs(os.path.dirname(p) or root, exist_ok=True)
        mode = "wb" if isinstance(content, bytes) else "w"
        kw = {} if isinstance(content, bytes) else {"encoding": "utf-8", "newline": ""}
        with open(p, mode, **kw) as fp:
            fp.write(content)


def lint_json(cwd, extra=()):
    code, out, exc = run_cli(["lint", "--json", *extra], cwd)
    if exc is not None:
        return code, None, exc
    try:
        return code, json.loads(out[out.index("{"):] if "{" in out else out), None
    except Exception as e:
        return code, None, e


def snapshot(root):
    """path -> (kind, content/target) for everything under root."""
    snap = {}
    for dp, dn, fn in os.walk(root):
        for d in dn:
            p = os.path.join(dp, d)
            rel = os.path.relpath(p, root)
            snap[rel] = ("link", os.readlink(p)) if os.path.islink(p) else ("dir", "")
        for f in fn:
            p = os.path.join(dp, f)
            rel = os.path.relpath(p, root)
            if os.path.islink(p):
                snap[rel] = ("link", os.readlink(p))
            else:
                with open(p, "rb") as fp:
                    snap[rel] = ("file", fp.read())
    return snap
