#!/bin/sh
# harness/seedsweep.sh <ID> [seeds=6] [tier=quick]: run a check under several VERIF_SEED values
cd "$(dirname "$0")/.." || exit 2
ID=$1; N=${2:-6}; TIER=${3:-quick}
bad=0
i=0
while [ $i -lt $N ]; do
  out=$(VERIF_SEED=$i ./check $ID --tier $TIER 2>&1); rc=$?
  echo "$out" | tail -1
  if [ $rc -ne 0 ]; then bad=1; echo "$out" | grep VIOLATION; fi
  i=$((i+1))
done
exit $bad
