"""./check <ID> [--tier quick|thorough] [--replay file]"""
import argparse
import importlib
import os
import signal
import sys

HERE = os.path.dirname(os.path.abspath(__file__))
sys.path.insert(0, HERE)
sys.path.insert(0, os.path.join(HERE, "props"))


def main():
    ap = argparse.ArgumentParser()
    ap.add_argument("pid")
    ap.add_argument("--tier", default=os.environ.get("VERIF_TIER", "quick"), choices=["quick", "thorough"])
    ap.add_argument("--replay")
    ap.add_argument("--timeout", type=int, default=None)
    a = ap.parse_args()
    seed = int(os.environ.get("VERIF_SEED", "0") or 0)
    import core

    limit = a.timeout or (3000 if a.tier == "thorough" else 900)

    def on_alarm(signum, frame):
        print("TIMEOUT property=%s after %ds" % (a.pid, limit))
        os._exit(2)

    signal.signal(signal.SIGALRM, on_alarm)
    signal.alarm(limit)
    core.pin_impl()
    mod = importlib.import_module(a.pid.lower())
    prop = mod.PROPERTY
    if a.replay:
        sys.exit(core.replay(prop, a.replay))
    sys.exit(core.run_property(prop, a.tier, seed))


if __name__ == "__main__":
    main()
