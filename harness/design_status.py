"""Regenerate the tables of DESIGN.md §9 (between the markers `<!-- BEGIN GENERATED STATUS -->` and
`<!-- END GENERATED STATUS -->`) from known_findings.json, harness/claims/*.json, the theorem files and
seeded/*/{meta,result,result-round1}.json.  Run after a seeded-change round or a new fix:

    /venv/bin/python harness/design_status.py
"""
import glob
import json
import os
import re
import subprocess

ROOT = os.path.dirname(os.path.dirname(os.path.abspath(__file__)))
BEGIN, END = "<!-- BEGIN GENERATED STATUS -->", "<!-- END GENERATED STATUS -->"


def cell(s):
    return str(s).replace("|", "\\|").replace("\n", " ")


def theorem_count(pid):
    p = os.path.join(ROOT, "lean", "ReuseVerif", "Theorems", pid + ".lean")
    try:
        text = open(p, encoding="utf-8").read()
    except FileNotFoundError:
        return 0, 0
    names = re.findall(r"^\s*theorem\s+([A-Za-z0-9_'.]+)", text, re.M)
    return len(names), sum(1 for n in names if n.endswith("_partial"))


def main():
    out = []
    k = json.load(open(os.path.join(ROOT, "known_findings.json")))
    claims = {os.path.basename(p)[:-5]: json.load(open(p)) for p in sorted(glob.glob(os.path.join(ROOT, "harness", "claims", "C*.json")))}
    props = [json.loads(l) for l in open(os.path.join(ROOT, "properties.jsonl"))]
    # --- status per property
    out.append("### 9.1 Status per property (generated)\n")
    out.append("| id | claimed | property theorems (of which `_partial`) | streams | fixes committed in /repo | known findings |")
    out.append("|---|---|---|---|---|---|")
    for p in props:
        pid = p["id"]
        n, npart = theorem_count(pid)
        ev = {}
        try:
            ev = json.load(open(os.path.join(ROOT, "evidence", pid + ".json")))
        except Exception:
            pass
        streams = ", ".join(sorted(ev.get("coverage", {}).get("streams", {})))
        fixes = sorted({f["commit"] for f in k["fixed"] if f["property"] == pid})
        finds = sorted({f["key"] for f in k["findings"] if f["property"] == pid})
        out.append("| %s | %s | %d (%d) | %s | %s | %s |" % (pid, "proof" if pid in claims else "no", n, npart, cell(streams), " ".join(fixes) or "–",
                                                      ", ".join("`%s`" % x for x in finds) or "–"))
    # --- fixes
    out.append("\n### 9.2 Genuine defects repaired (`fix:` commits in /repo, generated from known_findings.json)\n")
    out.append("| commit | property | what failed |")
    out.append("|---|---|---|")
    seen = {}
    for f in k["fixed"]:
        seen.setdefault(f["commit"], []).append(f)
    order = subprocess.run(["git", "-C", "/repo", "log", "--reverse", "--format=%h"], capture_output=True, text=True).stdout.split()
    for c in sorted(seen, key=lambda c: order.index(c) if c in order else 10**6):
        fs = seen[c]
        what = fs[0]["line"].split(c, 1)[-1].strip()
        out.append("| %s | %s | %s |" % (c, ", ".join(sorted({f["property"] for f in fs})), cell(what)))
    # --- findings
    out.append("\n### 9.3 Genuine defects recorded, not repaired (known findings, generated)\n")
    out.append("| property | key | what fails | replay |")
    out.append("|---|---|---|---|")
    for f in k["findings"]:
        out.append("| %s | `%s` | %s | `%s` |" % (f["property"], f["key"], cell(f["description"]), cell(f.get("repro", ""))))
    # --- seeded
    out.append("\n### 9.4 Seeded property-breaking changes: which check catches which (generated)\n")
    out.append("Each change was written by a fresh sub-agent that saw only the property text and a scratch worktree of the code; each compiles, "
               "passes the project's test-suite (baseline failures only) and comes with a demonstration that passes on the unchanged tree and "
               "fails with the change (re-confirmed by `harness/seedtest.py`). *First round* = the checks as they stood when the change arrived; "
               "*now* = after the strengthening described in §9.5.\n")
    out.append("| seeded change | breaks | what it is | needs, to manifest | first round | now caught by | concrete failing input |")
    out.append("|---|---|---|---|---|---|---|")
    for d in sorted(glob.glob(os.path.join(ROOT, "seeded", "*", "meta.json"))):
        dd = os.path.dirname(d)
        m = json.load(open(d))
        r = json.load(open(os.path.join(dd, "result.json"))) if os.path.exists(os.path.join(dd, "result.json")) else {}
        r1 = json.load(open(os.path.join(dd, "result-round1.json"))) if os.path.exists(os.path.join(dd, "result-round1.json")) else None
        first = "–" if r1 is None else (", ".join(r1.get("caught_by", [])) or "**missed**")
        now = ", ".join(r.get("caught_by", [])) or ("**missed**" if r else "not run")
        out.append("| %s | %s | %s | %s | %s | %s | %s |" % (m["name"], m["property"], cell(m["what"]), cell(m["needs_to_manifest"]), first, now,
                                                         "yes" if r.get("concrete_input") else "no"))
    text = "\n".join(out) + "\n"
    p = os.path.join(ROOT, "DESIGN.md")
    s = open(p, encoding="utf-8").read()
    if BEGIN in s and END in s:
        s = s[:s.index(BEGIN) + len(BEGIN)] + "\n" + text + s[s.index(END):]
    else:
        print(text)
    nb, ne = "<!-- BEGIN GENERATED NOTES -->", "<!-- END GENERATED NOTES -->"
    if nb in s and ne in s:
        notes = []
        for d in sorted(glob.glob(os.path.join(ROOT, "docs", "DESIGN-*.md"))):
            notes.append(open(d, encoding="utf-8").read().rstrip("\n") + "\n")
        s = s[:s.index(nb) + len(nb)] + "\n" + "\n".join(notes) + s[s.index(ne):]
    sb, se = "<!-- BEGIN GENERATED STRENGTHEN -->", "<!-- END GENERATED STRENGTHEN -->"
    if sb in s and se in s:
        notes = []
        for d in sorted(glob.glob(os.path.join(ROOT, "docs", "STRENGTHEN-*.md"))):
            text = open(d, encoding="utf-8").read().rstrip("\n")
            # demote headings so that they nest under §9.5
            text = re.sub(r"^(#+) ", lambda m: "#" * (len(m.group(1)) + 4) + " ", text, flags=re.M)
            notes.append(text + "\n")
        s = s[:s.index(sb) + len(sb)] + "\n" + "\n".join(notes) + s[s.index(se):]
    open(p, "w", encoding="utf-8").write(s)


if __name__ == "__main__":
    main()
