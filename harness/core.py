"""Shared machinery of the checks: pinning the implementation, (re)building the
Lean development, talking to the compiled model driver, running correspondence
streams, deciding (DESIGN.md §2.5) and writing evidence.

Run with /venv/bin/python; the implementation under test is /repo/src.
"""
from __future__ import annotations

import fcntl
import hashlib
import json
import os
import random
import re
import subprocess
import sys
import time
from dataclasses import dataclass, field
from typing import Any, Callable, Iterable, Optional

VERIF = os.path.dirname(os.path.dirname(os.path.abspath(__file__)))
REPO = os.environ.get("REUSE_VERIF_REPO", "/repo")
LEAN = os.path.join(VERIF, "lean")
DRIVER = os.path.join(LEAN, ".lake", "build", "bin", "rvdriver")
ALLOWED_AXIOMS = {"propext", "Classical.choice", "Quot.sound"}
FORBIDDEN = re.compile(
    r"\b(sorry|admit|native_decide|bv_decide|implemented_by|unsafe)\b|^\s*axiom\s|maxHeartbeats\s+0\b"
)

TRUSTED_BASE = [
    "Lean 4.33 kernel; axioms limited to propext, Classical.choice, Quot.sound (audited by #print axioms on every property theorem)",
    "harness/gen_tables.py: emitted Lean tables equal the live Python objects of /repo/src (round-tripped through the driver on every run)",
    "correspondence harness + canonicaliser (harness/core.py, harness/props/*): a behavioural disagreement between model and implementation would be seen on the explored inputs",
    "the declarative specs in lean/ReuseVerif/Spec say what the property text says",
]


# --------------------------------------------------------------------------
# implementation pinning


def pin_impl() -> dict:
    src = os.path.join(REPO, "src")
    if src not in sys.path:
        sys.path.insert(0, src)
    import reuse  # noqa

    real = os.path.realpath(reuse.__file__)
    if not real.startswith(os.path.realpath(src) + os.sep):
        raise SystemExit("implementation under test is not %s: %s" % (src, real))
    head = subprocess.run(
        ["git", "-C", REPO, "rev-parse", "HEAD"], capture_output=True, text=True
    ).stdout.strip()
    h = hashlib.sha256()
    base = os.path.join(src, "reuse")
    for dp, dn, fn in sorted(os.walk(base)):
        dn.sort()
        for f in sorted(fn):
            if f.endswith((".py", ".jinja2", ".json")):
                p = os.path.join(dp, f)
                h.update(os.path.relpath(p, base).encode())
                with open(p, "rb") as fp:
                    h.update(fp.read())
    return {"repo_head": head, "src_digest": h.hexdigest()[:16], "impl_path": real}


# --------------------------------------------------------------------------
# protocol encoding (mirrors lean/Driver/Proto.lean)


def enc(s: str) -> str:
    return ",".join("%x" % ord(c) for c in s)


def dec(s: str) -> str:
    if s == "":
        return ""
    return "".join(chr(int(h, 16)) for h in s.split(","))


def enc_list(l: Iterable[str]) -> str:
    l = list(l)
    return "~" if not l else ";".join(enc(x) for x in l)


def dec_list(s: str) -> list[str]:
    return [] if s == "~" else [dec(x) for x in s.split(";")]


def enc_bool(b: bool) -> str:
    return "1" if b else "0"


def enc_opt(s: Optional[str]) -> str:
    return "none" if s is None else "some:" + enc(s)


# --------------------------------------------------------------------------
# building the Lean side


@dataclass
class BuildResult:
    tables_changed: dict
    driver_ok: bool
    proofs_ok: bool
    audit_ok: bool
    theorems: list[str]
    audited: dict  # theorem -> list of axioms
    log: str
    forbidden_hits: list[str]
    wall_s: float
    #: Generated/*.lean files that could not be regenerated from the live objects (gen_tables.FAILED): name -> error
    tables_failed: dict = field(default_factory=dict)


def _strip_comments(text: str) -> str:
    # remove /- ... -/ (nested rarely used here) and -- line comments
    out = []
    depth = 0
    i = 0
    n = len(text)
    while i < n:
        if text.startswith("/-", i):
            depth += 1
            i += 2
        elif depth and text.startswith("-/", i):
            depth -= 1
            i += 2
        elif depth:
            if text[i] == "\n":
                out.append("\n")
            i += 1
        elif text.startswith("--", i):
            while i < n and text[i] != "\n":
                i += 1
        else:
            out.append(text[i])
            i += 1
    return "".join(out)


def theorem_names(prop: str) -> list[str]:
    path = os.path.join(LEAN, "ReuseVerif", "Theorems", prop + ".lean")
    with open(path, encoding="utf-8") as fp:
        text = _strip_comments(fp.read())
    return re.findall(r"^\s*theorem\s+([A-Za-z0-9_'.]+)", text, re.M)


def scan_forbidden() -> list[str]:
    hits = []
    for dp, dn, fn in os.walk(LEAN):
        if ".lake" in dp:
            continue
        for f in fn:
            if f.endswith(".lean"):
                p = os.path.join(dp, f)
                with open(p, encoding="utf-8") as fp:
                    text = _strip_comments(fp.read())
                for ln, line in enumerate(text.split("\n"), 1):
                    if FORBIDDEN.search(line):
                        hits.append("%s:%d: %s" % (os.path.relpath(p, LEAN), ln, line.strip()))
    return hits


def write_audit(prop: str, names: list[str]) -> str:
    path = os.path.join(LEAN, "ReuseVerif", "Audit", prop + ".lean")
    body = ["-- GENERATED by harness/core.py from Theorems/%s.lean — do not edit." % prop,
            "import ReuseVerif.Theorems.%s" % prop]
    for n in names:
        body.append("#print axioms %s.%s" % (prop, n))
    content = "\n".join(body) + "\n"
    try:
        with open(path, encoding="utf-8") as fp:
            if fp.read() == content:
                return path
    except FileNotFoundError:
        pass
    os.makedirs(os.path.dirname(path), exist_ok=True)
    with open(path, "w", encoding="utf-8") as fp:
        fp.write(content)
    return path


def build(prop: str, thorough: bool = False) -> BuildResult:
    """Regenerate tables from /repo/src, build driver + the property's theorems, audit axioms."""
    import gen_tables

    t0 = time.time()
    os.makedirs(os.path.join(LEAN, ".lake"), exist_ok=True)
    lock = open(os.path.join(LEAN, ".lake", "verif.lock"), "w")
    fcntl.flock(lock, fcntl.LOCK_EX)
    try:
        changed = gen_tables.main()
        tables_failed = dict(getattr(gen_tables, "FAILED", {}))
        names = theorem_names(prop)
        audit_path = write_audit(prop, names)
        log = []
        env = dict(os.environ)
        r1 = subprocess.run(["lake", "build", "rvdriver"], cwd=LEAN, capture_output=True, text=True, env=env)
        driver_ok = r1.returncode == 0
        log.append(r1.stdout[-4000:] + r1.stderr[-2000:])
        r2 = subprocess.run(
            ["lake", "build", "ReuseVerif.Theorems.%s" % prop],
            cwd=LEAN, capture_output=True, text=True, env=env,
        )
        proofs_ok = r2.returncode == 0
        log.append(r2.stdout[-6000:] + r2.stderr[-2000:])
        audited: dict = {}
        audit_ok = False
        if proofs_ok:
            r3 = subprocess.run(
                ["lake", "env", "lean", os.path.relpath(audit_path, LEAN)],
                cwd=LEAN, capture_output=True, text=True, env=env,
            )
            out = r3.stdout + r3.stderr
            log.append(out[-6000:])
            # "'C12.foo' depends on axioms: [propext, Quot.sound]" / "'C12.foo' does not depend on any axioms"
            for m in re.finditer(r"'([^']+)' depends on axioms: \[([^\]]*)\]", out, re.S):
                audited[m.group(1)] = [a.strip() for a in m.group(2).replace("\n", " ").split(",") if a.strip()]
            for m in re.finditer(r"'([^']+)' does not depend on any axioms", out):
                audited[m.group(1)] = []
            audit_ok = r3.returncode == 0 and all(
                ("%s.%s" % (prop, n)) in audited
                and set(audited["%s.%s" % (prop, n)]) <= ALLOWED_AXIOMS
                for n in names
            )
            if thorough and audit_ok:
                r4 = subprocess.run(
                    ["lake", "env", "leanchecker", "ReuseVerif.Theorems.%s" % prop],
                    cwd=LEAN, capture_output=True, text=True, env=env,
                )
                log.append("leanchecker: rc=%d %s" % (r4.returncode, (r4.stdout + r4.stderr)[-1500:]))
                if r4.returncode != 0:
                    audit_ok = False
        hits = scan_forbidden()
        if hits:
            audit_ok = False
    finally:
        fcntl.flock(lock, fcntl.LOCK_UN)
        lock.close()
    return BuildResult(changed, driver_ok, proofs_ok, audit_ok, names, audited, "\n".join(log), hits, time.time() - t0, tables_failed)


# --------------------------------------------------------------------------
# the model driver


def run_driver(lines: list[str]) -> list[str]:
    if not lines:
        return []
    data = ("\n".join(lines) + "\n").encode("utf-8")
    r = subprocess.run([DRIVER], input=data, capture_output=True)
    if r.returncode != 0:
        raise RuntimeError("driver failed: rc=%d %s" % (r.returncode, r.stderr[-500:]))
    outs = r.stdout.decode("utf-8").split("\n")
    if outs and outs[-1] == "":
        outs.pop()
    if len(outs) != len(lines):
        raise RuntimeError("driver answered %d lines for %d ops" % (len(outs), len(lines)))
    return outs


# --------------------------------------------------------------------------
# streams


class Stream:
    """One correspondence stream: a family of cases, the implementation's
    behaviour, the model's behaviour, an independent property oracle."""

    name = "stream"
    #: text for evidence.rule
    rule = ""
    exhaustive = False

    def cases(self, tier: str, rng: random.Random) -> Iterable[Any]:
        raise NotImplementedError

    def impl(self, case) -> str:
        raise NotImplementedError

    def model_lines(self, case) -> list[str]:
        return []

    def model_out(self, case, outs: list[str]) -> str:
        return outs[0] if outs else ""

    def oracle(self, case, impl_out: str) -> Optional[str]:
        """None if the property holds on this case, else a description."""
        return None

    def nontrivial(self, case, impl_out: str):
        """A hashable key when the case is non-trivial, else None."""
        return impl_out

    def agree(self, case, impl_out: str, model_out: str) -> bool:
        """Do implementation and model agree on this case?  (Equality, unless the model answer is a
        one-sided guarantee such as 'the theorem's hypotheses hold, so the result must be X'.)"""
        return impl_out == model_out

    def classify(self, case, failure: str) -> Optional[str]:
        """Key of a known-finding shape this failing case belongs to."""
        return None

    def show(self, case):
        return case


@dataclass
class StreamResult:
    name: str
    evaluations: int = 0
    nontrivial: set = field(default_factory=set)
    disagreements: list = field(default_factory=list)  # (case, impl, model)
    failures: list = field(default_factory=list)  # (case, impl, why)
    samples: list = field(default_factory=list)
    histogram: dict = field(default_factory=dict)
    model_ran: bool = False
    wall_s: float = 0.0
    exhaustive: bool = False


def run_stream(stream: Stream, tier: str, seed: int, use_model: bool, extra_cases=(), deadline: float = None) -> StreamResult:
    t0 = time.time()
    rng = random.Random("%s:%s:%d" % (stream.name, tier, seed))
    res = StreamResult(stream.name)
    cases = list(extra_cases)
    for c in stream.cases(tier, rng):
        cases.append(c)
    res.exhaustive = bool(stream.exhaustive)
    impl_outs = []
    for c in cases:
        try:
            o = stream.impl(c)
        except Exception as e:  # an exception escaping the adapter is itself behaviour
            o = "EXC:%s:%s" % (type(e).__name__, str(e)[:120])
        impl_outs.append(o)
    res.evaluations = len(cases)
    # model
    if use_model:
        lines = []
        spans = []
        for c in cases:
            ls = stream.model_lines(c)
            spans.append((len(lines), len(ls)))
            lines.extend(ls)
        if lines:
            outs = run_driver(lines)
            res.model_ran = True
            for c, io, (a, n) in zip(cases, impl_outs, spans):
                if n == 0:
                    continue
                mo = stream.model_out(c, outs[a : a + n])
                try:
                    same = stream.agree(c, io, mo)
                except Exception:
                    if not io.startswith("EXC"):
                        raise
                    same = False        # the adapter raised: whatever the model says, this is a disagreement
                if not same:
                    res.disagreements.append((c, io, mo))
    for c, io in zip(cases, impl_outs):
        # an exception that escaped the adapter is recorded as "EXC:…"; a stream whose oracle / bookkeeping cannot read that must
        # not take the whole check down (the model comparison above has already recorded the disagreement)
        try:
            why = stream.oracle(c, io)
        except Exception:
            if not io.startswith("EXC"):
                raise
            why = None
        if why is not None:
            res.failures.append((c, io, why))
        try:
            k = stream.nontrivial(c, io)
        except Exception:
            if not io.startswith("EXC"):
                raise
            k = None
        if k is not None:
            res.nontrivial.add(k if isinstance(k, (str, int, tuple)) else repr(k))
        hk = io.split(":")[0][:24] if io.startswith(("EXC", "err")) else "ok"
        res.histogram[hk] = res.histogram.get(hk, 0) + 1
    step = max(1, len(cases) // 5)
    for i in range(0, len(cases), step):
        res.samples.append({"case": stream.show(cases[i]), "impl": impl_outs[i][:200]})
    res.samples = res.samples[:6]
    res.wall_s = time.time() - t0
    return res


# --------------------------------------------------------------------------
# known findings


def load_known() -> dict:
    p = os.path.join(VERIF, "known_findings.json")
    try:
        with open(p, encoding="utf-8") as fp:
            return json.load(fp)
    except FileNotFoundError:
        return {"findings": [], "fixed": []}


# --------------------------------------------------------------------------
# the per-property pipeline


@dataclass
class Property:
    pid: str
    streams: list  # list[Stream]
    assumptions: list = field(default_factory=list)
    trusted_extra: list = field(default_factory=list)
    #: optional deeper search used only when an obligation / the correspondence broke
    search: Optional[Callable] = None
    #: optional extra obligations checked by the harness (name -> callable returning bool)
    table_roundtrip: Optional[Callable] = None


def write_replay(pid: str, payload: dict) -> str:
    os.makedirs(os.path.join(VERIF, "replays"), exist_ok=True)
    h = hashlib.sha1(json.dumps(payload, sort_keys=True, default=str).encode()).hexdigest()[:10]
    path = os.path.join(VERIF, "replays", "%s-%s.json" % (pid, h))
    with open(path, "w", encoding="utf-8") as fp:
        json.dump(payload, fp, indent=1, default=str, ensure_ascii=True)
    return os.path.relpath(path, VERIF)


def run_property(prop: Property, tier: str, seed: int) -> int:
    t0 = time.time()
    pin = pin_impl()
    pid = prop.pid
    thorough = tier == "thorough"
    b = build(pid, thorough=thorough)
    proofs_ok = b.proofs_ok and b.audit_ok
    known = load_known()
    known_keys = {f["key"]: f for f in known.get("findings", []) if f.get("property") == pid}
    results = []
    table_ok = True
    table_msg = ""
    if prop.table_roundtrip is not None and b.driver_ok:
        try:
            table_msg = prop.table_roundtrip() or ""
            table_ok = table_msg == ""
        except Exception as e:
            table_ok, table_msg = False, "table round-trip raised %r" % (e,)
    if b.tables_failed:
        # a generated table could not be read off the code any more: the model keeps the table it had; whether the code
        # still behaves as the property demands is for the streams' oracles to say
        table_ok = False
        table_msg = (table_msg + "; " if table_msg else "") + "; ".join(
            "Generated/%s could not be regenerated (%s)" % kv for kv in sorted(b.tables_failed.items()))
    for s in prop.streams:
        corpus = []
        for f in list(known.get("findings", [])) + list(known.get("fixed", [])):
            if f.get("property") == pid and f.get("stream") == s.name and "case" in f:
                corpus.append(f["case"])
        results.append(run_stream(s, tier, seed, use_model=b.driver_ok, extra_cases=corpus))
    # --- decision (DESIGN.md §2.5)
    violations = []  # (stream, case, impl, why)
    known_hit = {}
    for s, r in zip(prop.streams, results):
        for case, io, why in r.failures:
            key = s.classify(case, why)
            if key is not None and key in known_keys:
                known_hit.setdefault(key, (s, case, io, why))
            else:
                violations.append((s, case, io, why))
    disagreements = [(s, d) for s, r in zip(prop.streams, results) for d in r.disagreements]
    corr_ok = not disagreements and table_ok
    exit_code = 0
    out_lines = []
    for key, f in known_keys.items():
        if key in known_hit:
            out_lines.append("KNOWN-FINDING: property=%s %s" % (pid, f.get("description", key)))
        else:
            out_lines.append(
                "KNOWN-FINDING: property=%s %s (listed; not re-observed in this run)" % (pid, f.get("description", key))
            )
    n_viol = 0
    if violations:
        # report the smallest few distinct failing inputs
        seen = set()
        violations.sort(key=lambda v: len(json.dumps(v[1], default=str)))
        for s, case, io, why in violations:
            k = (s.name, why.split(":")[0])
            if k in seen:
                continue
            seen.add(k)
            path = write_replay(pid, {
                "property": pid, "stream": s.name, "case": case, "observed": io, "why": why,
                "kind": "failing-input", "rerun": "./check %s --replay <this file>" % pid, **pin,
            })
            out_lines.append("VIOLATION property=%s replay=%s" % (pid, path))
            n_viol += 1
            if n_viol >= 5:
                break
        exit_code = 1
    elif not (proofs_ok and corr_ok and b.driver_ok):
        # an obligation or the correspondence broke; the oracle found nothing on the explored inputs:
        # deeper search of the implementation, then report
        found = None
        if prop.search is not None:
            try:
                found = prop.search(seed)
            except Exception as e:
                found = None
                out_lines.append("note: deeper search raised %r" % (e,))
        if found is not None:
            sname, case, io, why = found
            path = write_replay(pid, {
                "property": pid, "stream": sname, "case": case, "observed": io, "why": why,
                "kind": "failing-input", **pin,
            })
            out_lines.append("VIOLATION property=%s replay=%s" % (pid, path))
        else:
            broken = []
            if not b.driver_ok:
                broken.append("model driver does not build against the regenerated tables")
            if not b.proofs_ok:
                m = re.findall(r"error: ([^\n]*)", b.log)
                broken.append("lake build ReuseVerif.Theorems.%s failed: %s" % (pid, "; ".join(m[:4])))
            elif not b.audit_ok:
                broken.append("axiom audit failed: %s %s" % (b.audited, b.forbidden_hits[:3]))
            if not table_ok:
                broken.append("table round-trip: " + table_msg)
            for s, (case, io, mo) in disagreements[:3]:
                broken.append("correspondence %s.%s: impl=%r model=%r on %r" % (pid, s.name, io[:80], mo[:80], s.show(case)))
            path = write_replay(pid, {
                "property": pid, "kind": "no-failing-input-found", "no_longer_checks": broken,
                "disagreements": [
                    {"stream": s.name, "case": c, "impl": io, "model": mo} for s, (c, io, mo) in disagreements[:20]
                ],
                "build_log_tail": b.log[-3000:], **pin,
            })
            out_lines.append("VIOLATION property=%s replay=%s no-failing-input-found" % (pid, path))
        n_viol = max(n_viol, 1)
        exit_code = 1
    # --- evidence
    names = b.theorems
    obligations = len(names) + 1  # + forbidden-construct scan
    discharged = sum(1 for n in names if set(b.audited.get("%s.%s" % (pid, n), ["?"])) <= ALLOWED_AXIOMS) if b.proofs_ok else 0
    discharged += 0 if b.forbidden_hits else 1
    evaluations = sum(r.evaluations for r in results)
    distinct = sum(len(r.nontrivial) for r in results)
    samples = []
    for r in results:
        samples.extend({"stream": r.name, **x} for x in r.samples[:3])
    samples.append({"obligation": "%s.%s" % (pid, names[0]) if names else "", "axioms": b.audited.get("%s.%s" % (pid, names[0])) if names else None})
    ev = {
        "property_id": pid,
        "tier": tier,
        "seed": seed,
        "level": "proof",
        "coverage": {
            "obligations": obligations,
            "discharged": discharged,
            "checker_cmd": "cd lean && lake build ReuseVerif.Theorems.%s && lake env lean ReuseVerif/Audit/%s.lean%s"
            % (pid, pid, " && lake env leanchecker ReuseVerif.Theorems.%s" % pid if thorough else ""),
            "trusted_base": TRUSTED_BASE + prop.trusted_extra,
            "theorems": {n: b.audited.get("%s.%s" % (pid, n)) for n in names},
            "tables_regenerated": b.tables_changed,
            "table_roundtrip": "ok" if table_ok else table_msg,
            "evaluations": evaluations,
            "distinct_nontrivial": distinct,
            "rule": " | ".join("%s: %s" % (s.name, s.rule) for s in prop.streams),
            "samples": samples,
            "exhaustive": all(r.exhaustive for r in results) if results else False,
            "traces_validated_against_impl": sum(r.evaluations for r in results if r.model_ran),
            "streams": {
                r.name: {
                    "evaluations": r.evaluations, "distinct_nontrivial": len(r.nontrivial),
                    "disagreements": len(r.disagreements), "oracle_failures": len(r.failures),
                    "model_compared": r.model_ran, "outcomes": r.histogram, "wall_s": round(r.wall_s, 2),
                    "exhaustive": r.exhaustive,
                } for r in results
            },
            "known_findings_listed": sorted(known_keys),
            "known_findings_reobserved": sorted(known_hit),
            "build_wall_s": round(b.wall_s, 2),
            "implementation": pin,
        },
        "assumptions": prop.assumptions,
        "wall_s": round(time.time() - t0, 2),
        "violations": n_viol,
    }
    os.makedirs(os.path.join(VERIF, "evidence"), exist_ok=True)
    with open(os.path.join(VERIF, "evidence", pid + ".json"), "w", encoding="utf-8") as fp:
        json.dump(ev, fp, indent=1, default=str, ensure_ascii=True)
    for l in out_lines:
        print(l)
    print("%s tier=%s seed=%d proofs=%s audit=%s corr=%s evaluations=%d nontrivial=%d wall=%.1fs" % (
        pid, tier, seed, b.proofs_ok, b.audit_ok, corr_ok, evaluations, distinct, time.time() - t0))
    return exit_code


def replay(prop: Property, path: str) -> int:
    pin_impl()
    with open(path, encoding="utf-8") as fp:
        payload = json.load(fp)
    if payload.get("kind") == "no-failing-input-found":
        print(json.dumps(payload.get("no_longer_checks"), indent=1))
        return 1
    for s in prop.streams:
        if s.name == payload["stream"]:
            io = s.impl(payload["case"])
            why = s.oracle(payload["case"], io)
            print("case:", json.dumps(s.show(payload["case"]), ensure_ascii=True))
            print("observed:", io)
            print("oracle:", why or "property holds on this input")
            return 1 if why else 0
    print("unknown stream", payload.get("stream"))
    return 2
